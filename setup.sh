#!/bin/bash
# MANIFEST.setup_cmd: build the harness (and the scrut binary) from files on disk only.
set -eu
cd "$(dirname "$0")"
export CARGO_NET_OFFLINE=true
mkdir -p target work replays evidence
(cd harness && cargo build --release --offline)
CARGO_PROFILE_RELEASE_LTO=false CARGO_PROFILE_RELEASE_STRIP=false \
CARGO_PROFILE_RELEASE_CODEGEN_UNITS=16 CARGO_PROFILE_RELEASE_OPT_LEVEL=1 \
cargo build --release --offline --manifest-path /repo/Cargo.toml --bin scrut \
    --target-dir /verif/target/scrut-bin
echo "setup ok"
