//! C14: timeouts bound execution time and surface as failures.

use proptest::collection::vec;
use proptest::prelude::*;
use serde::{Deserialize, Serialize};

use crate::engine::*;
use crate::proc::*;

#[derive(Clone, Debug, Serialize, Deserialize)]
pub struct T14 {
    /// per-test timeout in ms (None = not configured)
    pub timeout_ms: Option<u64>,
    /// command duration class: 0 = immediate, 2 = sleep 2, 30 = sleep 30
    pub sleep_s: u64,
}

#[derive(Clone, Debug, Serialize, Deserialize)]
pub struct Case14 {
    pub cram: bool,
    /// document limit in ms: None = default (900 s), Some(0) = unlimited
    pub doc_limit_ms: Option<u64>,
    /// the document limit comes from --timeout-seconds instead of the front-matter
    pub limit_via_cli: bool,
    pub tests: Vec<T14>,
    /// index of a test case that carries `wait: <document limit + 700 ms>`: the document deadline
    /// passes while scrut waits: this test case and the ones after it must not pass any more
    #[serde(default)]
    pub deadline_wait: Option<u8>,
    /// how slow commands are written: 0 `sleep N`, 1 SIGTERM ignored, 2 SIGTERM / SIGINT handled,
    /// 3 background child + wait, 4 subshell
    #[serde(default)]
    pub cmd_style: u8,
    /// Markdown: a `detached: true` test case (no result of its own) stands before the others
    #[serde(default)]
    pub detached_first: bool,
    /// `--shell <bash>` is given on the command line as well (another global flag next to
    /// --timeout-seconds)
    #[serde(default)]
    pub shell_flag: bool,
}

/// every test case has its own command text (`: tN` in front) so that the report can be
/// attributed test case by test case
fn command(i: usize, sleep_s: u64, style: u8) -> String {
    format!(": t{i}; {}", command_body(sleep_s, style))
}

fn command_body(sleep_s: u64, style: u8) -> String {
    if sleep_s == 0 {
        return "true".to_string();
    }
    match style {
        1 => format!("trap '' TERM; sleep {sleep_s}"),
        2 => format!("trap 'echo bye' TERM INT; sleep {sleep_s}"),
        3 => format!("sleep {sleep_s} & wait"),
        4 => format!("(sleep {sleep_s})"),
        _ => format!("sleep {sleep_s}"),
    }
}

/// a command that must be cut is at least this much longer than the limit ..
const MARGIN_MS: u64 = 600;
/// .. and a command that must complete is at least this much shorter (start-up of scrut and bash
/// under load eats into this side only)
const INSIDE_MARGIN_MS: u64 = 900;

/// effective limit of test i given the elapsed time
fn effective_limit(c: &Case14, i: usize, elapsed_ms: u64) -> Option<u64> {
    let doc = match c.doc_limit_ms {
        None => Some(900_000u64),
        Some(0) => None,
        Some(l) => Some(l),
    }
    .map(|l| l.saturating_sub(elapsed_ms));
    let per = if c.cram { None } else { c.tests[i].timeout_ms };
    match (per, doc) {
        (Some(p), Some(d)) => Some(p.min(d)),
        (Some(p), None) => Some(p),
        (None, d) => d,
    }
}

fn case_strategy() -> BoxedStrategy<Case14> {
    (
        proptest::bool::weighted(0.2),
        prop_oneof![2 => Just(None), 1 => Just(Some(0u64)), 2 => Just(Some(800u64)), 3 => Just(Some(3000u64)), 1 => Just(Some(1000u64))],
        any::<bool>(),
        vec((prop_oneof![3 => Just(None), 1 => Just(Some(300u64)), 2 => Just(Some(1200u64)), 3 => Just(Some(5000u64))], any::<u16>()), 1..4),
        prop_oneof![3 => Just(0u8), 1 => Just(1u8), 1 => Just(2u8), 1 => Just(3u8), 1 => Just(4u8)],
    )
        .prop_map(|(cram, doc_limit_ms, limit_via_cli, raw, cmd_style)| {
            // --timeout-seconds takes whole seconds
            let limit_via_cli = limit_via_cli && doc_limit_ms.map(|l| l % 1000 == 0).unwrap_or(false);
            let mut c = Case14 {
                cram,
                doc_limit_ms,
                limit_via_cli: limit_via_cli || (cram && doc_limit_ms.is_some()),
                tests: raw.iter().map(|(t, _)| T14 { timeout_ms: if cram { None } else { *t }, sleep_s: 0 }).collect(),
                deadline_wait: None,
                cmd_style,
                detached_first: !cram && raw[0].1 % 3 == 0,
                shell_flag: raw[0].1 % 5 < 2,
            };
            // deadline-crossing wait scenario (Markdown, finite document limit); the waiting test
            // case may be the last one of the document
            if !cram && raw[0].1 % 2 == 0 && doc_limit_ms.map(|l| l > 0).unwrap_or(false) {
                let w = (raw[raw.len() - 1].1 as usize) % raw.len();
                for t in c.tests.iter_mut() {
                    t.timeout_ms = None;
                    t.sleep_s = 0;
                }
                c.deadline_wait = Some(w as u8);
                return c;
            }
            if c.cram {
                // Cram has no front-matter: the limit can only come from the command line
                if let Some(l) = c.doc_limit_ms {
                    if l % 1000 != 0 {
                        c.doc_limit_ms = Some(1000);
                    }
                }
            }
            // construct durations inside the margins (no filtering)
            let mut elapsed = 0u64;
            let mut timed_out = false;
            for i in 0..c.tests.len() {
                if timed_out {
                    c.tests[i].sleep_s = 0;
                    continue;
                }
                let limit = effective_limit(&c, i, elapsed);
                let mut allowed: Vec<u64> = vec![];
                // immediate command (about 50 ms): must be well inside the limit
                if limit.map(|l| l >= 50 + INSIDE_MARGIN_MS).unwrap_or(true) {
                    allowed.push(0);
                }
                // 2 s: either clearly inside or clearly cut
                if limit.map(|l| l >= 2000 + INSIDE_MARGIN_MS || l + MARGIN_MS <= 2000).unwrap_or(true) {
                    allowed.push(2);
                }
                // 30 s only where a limit of at most 5 s cuts it short
                if limit.map(|l| l <= 5000).unwrap_or(false) {
                    allowed.push(30);
                }
                if allowed.is_empty() {
                    allowed.push(2);
                }
                let choice = allowed[pick_idx(raw[i].1, allowed.len())];
                c.tests[i].sleep_s = choice;
                let d = choice * 1000 + 50;
                match limit {
                    Some(l) if d > l => timed_out = true,
                    _ => elapsed += d,
                }
            }
            c
        })
        .boxed()
}

fn check_case(c: &Case14) -> V {
    let dir = match CaseDir::new("C14") {
        Ok(d) => d,
        Err(e) => inconclusive(&format!("scratch: {e}")),
    };
    // model
    let mut elapsed = 0u64;
    let mut expected: Vec<&'static str> = vec![];
    let mut abort_at: Option<u64> = None;
    for i in 0..c.tests.len() {
        if abort_at.is_some() {
            expected.push("skipped");
            continue;
        }
        let d = c.tests[i].sleep_s * 1000 + 50;
        match effective_limit(c, i, elapsed) {
            Some(l) if d > l => {
                expected.push("timeout");
                abort_at = Some(elapsed + l);
            }
            _ => {
                expected.push("success");
                elapsed += d;
            }
        }
    }
    let mut total_expected_ms = abort_at.unwrap_or(elapsed);
    let wait_ms = c.doc_limit_ms.unwrap_or(0) + 700;
    if let Some(w) = c.deadline_wait {
        // everything is immediate; the wait alone crosses the deadline
        total_expected_ms = (w as u64 + 1) * 50 + wait_ms;
    }
    let fmt_ms = |ms: u64| if ms % 1000 == 0 { format!("{}s", ms / 1000) } else { format!("{ms}ms") };
    let mut doc = String::new();
    let mut args: Vec<String> = vec!["test".into(), "-r".into(), "json".into(), "--no-color".into()];
    if c.cram {
        for (i, t) in c.tests.iter().enumerate() {
            doc.push_str(&format!("test {i}\n  $ {}\n\n", command(i, t.sleep_s, c.cmd_style)));
        }
    } else {
        if let (Some(l), false) = (c.doc_limit_ms, c.limit_via_cli) {
            doc.push_str(&format!("---\ntotal_timeout: {}\n---\n\n", fmt_ms(l)));
        }
        if c.detached_first {
            doc.push_str("# detached\n\n```scrut {detached: true}\n$ : detached; true\n```\n\n");
        }
        for (i, t) in c.tests.iter().enumerate() {
            let cfg = if c.deadline_wait == Some(i as u8) {
                format!(" {{wait: {}ms}}", wait_ms)
            } else {
                t.timeout_ms.map(|ms| format!(" {{timeout: {}}}", fmt_ms(ms))).unwrap_or_default()
            };
            doc.push_str(&format!(
                "# test {i}\n\n```scrut{cfg}\n$ {}\n```\n\n",
                command(i, t.sleep_s, c.cmd_style)
            ));
        }
    }
    if let (Some(l), true) = (c.doc_limit_ms, c.limit_via_cli) {
        args.push("--timeout-seconds".into());
        args.push(format!("{}", l / 1000));
    }
    if c.shell_flag {
        args.push("--shell".into());
        args.push("/bin/bash".into());
    }
    let path = dir.path().join(if c.cram { "doc.t" } else { "doc.md" });
    std::fs::write(&path, &doc).ok();
    args.push(path.to_string_lossy().to_string());
    let argv: Vec<&str> = args.iter().map(|s| s.as_str()).collect();
    let run = match run_scrut(&dir, &argv, 90) {
        Ok(r) => r,
        Err(e) => {
            // exceeding the watchdog here *is* the property (nothing generated runs longer than ~6 s)
            return V::fail(format!("scrut did not finish within 90 s ({e}) although every limit is <= 5 s\nargs: {:?}\n{doc}", &args[1..]));
        }
    };
    let both = c.doc_limit_ms.map(|l| l != 0).unwrap_or(false) && c.tests.iter().any(|t| t.timeout_ms.is_some());
    let slow_unlimited = c.doc_limit_ms.map(|l| l == 0).unwrap_or(true) && c.tests.iter().any(|t| t.sleep_s > 0);
    let v = V::pass()
        .nt(both || slow_unlimited || c.deadline_wait.is_some())
        .label(if c.cram { "cram" } else { "markdown" })
        .label_if(both, "both_limits_present")
        .label_if(abort_at.is_some(), "expects_timeout")
        .label_if(c.limit_via_cli, "limit_via_command_line")
        .label_if(c.deadline_wait.is_some(), "deadline_passes_during_wait")
        .label_if(c.detached_first, "detached_test_case_first")
        .label_if(c.shell_flag && c.limit_via_cli, "shell_and_timeout_flags_together")
        .label_if(abort_at.is_some() && matches!(c.cmd_style, 1 | 2), "timed_out_command_traps_sigterm")
        .label_if(abort_at.is_some() && matches!(c.cmd_style, 3 | 4), "timed_out_command_has_child_process")
        .label_if(
            !c.cram && c.tests.iter().enumerate().any(|(i, t)| t.timeout_ms.map(|p| c.doc_limit_ms.map(|l| l != 0 && l < p).unwrap_or(false)).unwrap_or(false) && i < 9),
            "document_limit_shorter_than_test_limit",
        );
    let describe = || format!("args: {:?}\nwall {:.2}s (model: {:.2}s)\n{doc}", &args[1..], run.wall.as_secs_f64(), total_expected_ms as f64 / 1000.0);
    let all_results = match json_results(&run.stdout) {
        Ok(k) => k,
        Err(e) => return V::fail(format!("no JSON report (exit {:?}): {e}\nstderr: {}\n{}", run.code, truncate(&run.stderr, 400), describe())),
    };
    // a detached test case has at most one result (scrut reports one when the document is cut
    // short, none otherwise); whatever it is, it is not what this property is about
    let detached_results = all_results.iter().filter(|(cmd, _)| cmd == "detached").count();
    if detached_results > 1 {
        return V::fail(format!("{detached_results} results for the one detached test case\n{}", describe()));
    }
    let attributed: Vec<(String, String)> = all_results.into_iter().filter(|(cmd, _)| cmd != "detached").collect();
    let kinds: Vec<String> = attributed.iter().map(|(_, k)| k.clone()).collect();
    if let Some(w) = c.deadline_wait {
        // the deadline passes during the wait of test w: test cases before it succeed; the waiting
        // one does not get to run inside the limit any more, it and the ones after it are
        // aborted / skipped
        let w = w as usize;
        for (i, k) in kinds.iter().enumerate() {
            let ok = if i < w { k == "success" } else { k == "timeout" || k == "skipped" };
            if !ok {
                return V::fail(format!(
                    "test {i}: result kind {k} although the document limit elapsed while scrut waited before test {w} (kinds {:?}, exit {:?})\n{}",
                    kinds, run.code, describe()
                ));
            }
        }
        if kinds.len() != c.tests.len() || run.code != Some(50) {
            return V::fail(format!("document limit elapsed during a wait: kinds {:?} exit {:?}, expected a failed run\n{}", kinds, run.code, describe()));
        }
    } else if c.cram {
        // single script: coarse attribution
        if abort_at.is_some() {
            let slow = expected.iter().position(|k| *k == "timeout").unwrap();
            if run.code != Some(50) || !kinds.iter().any(|k| k == "timeout") {
                return V::fail(format!("expected a timeout (exit 50), got exit {:?} kinds {:?}\n{}", run.code, kinds, describe()));
            }
            for (i, k) in kinds.iter().enumerate() {
                if i >= slow && k == "success" {
                    return V::fail(format!("test {i} at or after the timed-out one is reported as success: {:?}\n{}", kinds, describe()));
                }
            }
        } else if run.code != Some(0) || kinds.iter().any(|k| k != "success") {
            return V::fail(format!("no limit is reached but exit {:?} kinds {:?}\n{}", run.code, kinds, describe()));
        }
    } else {
        if kinds != expected {
            return V::fail(format!("result kinds {:?}, the effective-limit model says {:?} (exit {:?})\n{}", kinds, expected, run.code, describe()));
        }
        // .. and each verdict belongs to the test case it is reported for
        for (i, (cmd, kind)) in attributed.iter().enumerate() {
            if cmd != &format!("test {i}") {
                return V::fail(format!("result {i} ({kind}) is reported for the test case {cmd:?}, not for test case {i} (results: {:?})\n{}", attributed, describe()));
            }
        }
        let want = if abort_at.is_some() { 50 } else { 0 };
        if run.code != Some(want) {
            return V::fail(format!("exit status {:?}, expected {want}\n{}", run.code, describe()));
        }
    }
    let bound_ms = total_expected_ms + 2500;
    if run.wall.as_millis() as u64 > bound_ms {
        return V::fail(format!(
            "scrut ran {:.2}s although the limits in force end the run after {:.2}s (+2.5 s tolerance)\n{}",
            run.wall.as_secs_f64(),
            total_expected_ms as f64 / 1000.0,
            describe()
        ));
    }
    v
}

pub fn property() -> Property {
    Property {
        id: "C14",
        assumptions: vec![
            "cases are constructed so that every decisive duration is at least 600 ms away from every limit; wall clock bound = modelled abort time + 2.5 s; commands that must complete stay 900 ms inside their limit; at most 8 cases run concurrently",
            "Cram (single script) mode: only the document limit exists and per-test attribution is coarse",
            "not asserted: that the timed-out command's process is killed (C18 observes the consequence)",
        ],
        parts: vec![Box::new(PropPart::<Case14> {
            name: "e2e",
            rule: "1..3 tests; per-test timeout in {none, 300ms, 1.2s, 5s}; document limit in {default, 0, 800ms, 1s, 3s} from front-matter or --timeout-seconds; command duration in {immediate, 2s, 30s} chosen inside the margins, slow commands written as plain sleep / with SIGTERM ignored or handled / as background child + wait / in a subshell; Markdown and Cram; `scrut test -r json` kinds, exit status and wall time vs. the effective-limit model min(per-test, remaining document time). also a scenario in which the document deadline passes during a `wait`. Non-trivial: both limits present, limit 0/absent with a slow command, or the wait scenario",
            quick: 128,
            thorough: 600,
            max_workers: 8,
            strategy: Box::new(|_| case_strategy()),
            check: Box::new(check_case),
        })],
    }
}
