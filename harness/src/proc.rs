//! Process engine helpers: scratch directories, running the scrut binary / bash with a watchdog.

use std::io::Read;
use std::path::{Path, PathBuf};
use std::process::{Command, Stdio};
use std::time::{Duration, Instant};

use crate::engine::*;

pub fn scrut_bin() -> PathBuf {
    std::env::var("SCRUT_BIN")
        .map(PathBuf::from)
        .unwrap_or_else(|_| PathBuf::from("/verif/target/scrut-bin/release/scrut"))
}

/// hang / resource problems are inconclusive, never a violation
pub fn inconclusive(msg: &str) -> ! {
    eprintln!("INCONCLUSIVE {msg}");
    std::process::exit(2);
}

/// per-case scratch directory under /verif/work/<property>/ ; removed on drop.
/// `tmp()` is an empty directory meant to be the TMPDIR of the scrut process under test.
pub struct CaseDir {
    dir: tempfile::TempDir,
}

impl CaseDir {
    pub fn new(property: &str) -> std::io::Result<Self> {
        let base = Path::new(VERIF_ROOT).join("work").join(property);
        std::fs::create_dir_all(&base)?;
        let dir = tempfile::Builder::new().prefix("case.").tempdir_in(&base)?;
        std::fs::create_dir_all(dir.path().join("tmp"))?;
        Ok(Self { dir })
    }
    pub fn path(&self) -> &Path {
        self.dir.path()
    }
    pub fn tmp(&self) -> PathBuf {
        self.dir.path().join("tmp")
    }
}

#[derive(Debug, Clone)]
pub struct RunResult {
    pub code: Option<i32>,
    pub signal: Option<i32>,
    pub stdout: Vec<u8>,
    pub stderr: Vec<u8>,
    pub wall: Duration,
}

/// run a command with a watchdog; Err = could not run / exceeded the watchdog (=> inconclusive)
pub fn run_cmd(mut cmd: Command, stdin: Option<&[u8]>, watchdog_s: u64) -> Result<RunResult, String> {
    use std::os::unix::process::ExitStatusExt;
    cmd.stdin(if stdin.is_some() { Stdio::piped() } else { Stdio::null() })
        .stdout(Stdio::piped())
        .stderr(Stdio::piped());
    let start = Instant::now();
    let mut child = cmd.spawn().map_err(|e| format!("spawn: {e}"))?;
    if let Some(data) = stdin {
        use std::io::Write;
        let mut si = child.stdin.take().unwrap();
        let data = data.to_vec();
        std::thread::spawn(move || {
            let _ = si.write_all(&data);
        });
    }
    let mut so = child.stdout.take().unwrap();
    let mut se = child.stderr.take().unwrap();
    let t1 = std::thread::spawn(move || {
        let mut b = vec![];
        let _ = so.read_to_end(&mut b);
        b
    });
    let t2 = std::thread::spawn(move || {
        let mut b = vec![];
        let _ = se.read_to_end(&mut b);
        b
    });
    let deadline = start + Duration::from_secs(watchdog_s);
    let status = loop {
        match child.try_wait() {
            Ok(Some(st)) => break st,
            Ok(None) => {
                if Instant::now() > deadline {
                    let _ = child.kill();
                    let _ = child.wait();
                    return Err(format!("watchdog: command exceeded {watchdog_s}s"));
                }
                std::thread::sleep(Duration::from_millis(5));
            }
            Err(e) => return Err(format!("wait: {e}")),
        }
    };
    let wall = start.elapsed();
    // detached grandchildren may keep the pipes open: do not wait for EOF for ever
    let join = |t: std::thread::JoinHandle<Vec<u8>>| -> Vec<u8> {
        let lim = Instant::now() + Duration::from_secs(20);
        while !t.is_finished() && Instant::now() < lim {
            std::thread::sleep(Duration::from_millis(5));
        }
        if t.is_finished() {
            t.join().unwrap_or_default()
        } else {
            vec![]
        }
    };
    Ok(RunResult {
        code: status.code(),
        signal: status.signal(),
        stdout: join(t1),
        stderr: join(t2),
        wall,
    })
}

pub fn scrut_command(dir: &CaseDir, args: &[&str]) -> Command {
    let mut cmd = Command::new(scrut_bin());
    cmd.args(args)
        .current_dir(dir.path())
        .env_clear()
        .env("PATH", "/usr/local/bin:/usr/bin:/bin")
        .env("HOME", dir.path())
        .env("TMPDIR", dir.tmp())
        .env("LANG", "C.UTF-8")
        .env("NO_COLOR", "1")
        .env("RUST_BACKTRACE", "0");
    cmd
}

pub fn run_scrut(dir: &CaseDir, args: &[&str], watchdog_s: u64) -> Result<RunResult, String> {
    run_cmd(scrut_command(dir, args), None, watchdog_s)
}

/// result kinds of a `-r json` report, in order
pub fn json_result_kinds(stdout: &[u8]) -> Result<Vec<String>, String> {
    let v: serde_json::Value =
        serde_json::from_slice(stdout).map_err(|e| format!("stdout is not JSON: {e}"))?;
    let arr = v.as_array().ok_or("JSON report is not an array")?;
    arr.iter()
        .map(|o| {
            o["result"]["kind"]
                .as_str()
                .map(|s| s.to_string())
                .ok_or_else(|| "entry without result.kind".to_string())
        })
        .collect()
}

/// (title, result kind) per entry of the JSON report (passing entries carry the title at top
/// level, failing ones inside the test case)
pub fn json_results(stdout: &[u8]) -> Result<Vec<(String, String)>, String> {
    let v: serde_json::Value =
        serde_json::from_slice(stdout).map_err(|e| format!("stdout is not JSON: {e}"))?;
    let arr = v.as_array().ok_or("JSON report is not an array")?;
    arr.iter()
        .map(|o| {
            let kind = o["result"]["kind"].as_str().ok_or_else(|| "entry without result.kind".to_string())?;
            let title = o["title"]
                .as_str()
                .or_else(|| o["testcase"]["title"].as_str())
                .ok_or_else(|| "entry without title".to_string())?;
            Ok((title.to_string(), kind.to_string()))
        })
        .collect()
}

pub fn truncate(b: &[u8], n: usize) -> String {
    let s = String::from_utf8_lossy(b);
    if s.len() > n {
        let mut end = n;
        while !s.is_char_boundary(end) {
            end -= 1;
        }
        format!("{}…", &s[..end])
    } else {
        s.to_string()
    }
}

/// entries of a directory (names), sorted
pub fn dir_entries(p: &Path) -> Vec<String> {
    let mut v: Vec<String> = std::fs::read_dir(p)
        .map(|rd| {
            rd.filter_map(|e| e.ok())
                .map(|e| e.file_name().to_string_lossy().to_string())
                .collect()
        })
        .unwrap_or_default();
    v.sort();
    v
}
