//! C11: escaping is lossless and produces printable text.

use proptest::collection::vec;
use proptest::prelude::*;
use scrut::escaping::Escaper;
use serde::{Deserialize, Serialize};
use unicode_categories::UnicodeCategories;

use crate::engine::*;
use crate::matcher::with_maker;
use crate::unicode_c::*;

#[derive(Clone, Debug, Serialize, Deserialize)]
pub struct EscapeCase {
    /// line content without the final LF
    #[serde(with = "hexbytes")]
    pub content: Vec<u8>,
    pub final_lf: bool,
    pub ascii: bool,
    pub mutation: u8,
    pub mpos: u16,
    pub mbyte: u8,
}

/// code points that stay unassigned by the stability policy or have been holes for decades
pub fn stable_unassigned(c: char) -> bool {
    let cp = c as u32;
    (0xFDD0..=0xFDEF).contains(&cp)
        || (cp & 0xFFFE) == 0xFFFE
        || (0x40000..=0xDFFFF).contains(&cp)
        || matches!(cp, 0x0378 | 0x0379 | 0x0380..=0x0383 | 0x038B | 0x038D | 0x03A2 | 0x0530 | 0x0557 | 0x0558)
}

/// code points the generators never produce: unassigned in UCD 14.0 but possibly assigned later
pub fn outside_domain(c: char) -> bool {
    is_cn(c) && !stable_unassigned(c)
}

fn is_cn(c: char) -> bool {
    // unassigned in UCD 14.0 = FORBIDDEN but neither Cc, Cf nor Co
    let cp = c as u32;
    in_table(FORBIDDEN, c)
        && !in_table(FORMAT_CF, c)
        && !(cp < 0x20 || (0x7f..=0x9f).contains(&cp))
        && !((0xE000..=0xF8FF).contains(&cp) || (0xF0000..=0xFFFFD).contains(&cp) || (0x100000..=0x10FFFD).contains(&cp))
}

/// generated characters: anything, except code points that are unassigned in UCD 14.0 and may be
/// assigned by a later Unicode version (there the verdict would depend on the age of the tables)
fn sanitize(c: char) -> char {
    if c == '\n' {
        return 'n';
    }
    if is_cn(c) && !stable_unassigned(c) {
        'a'
    } else {
        c
    }
}

#[derive(Clone, Debug)]
enum Piece {
    Bytes(Vec<u8>),
}

fn piece_strategy() -> BoxedStrategy<Piece> {
    let s = |x: &str| Just(Piece::Bytes(x.as_bytes().to_vec()));
    let b = |x: &[u8]| Just(Piece::Bytes(x.to_vec()));
    prop_oneof![
        // printable ASCII, incl. the characters that follow a backslash in escape sequences
        6 => proptest::sample::select(vec!["a", "b", " ", "t", "n", "r", "x", "0", "1", "4", "f", "F", "e", "v", "(", ")", "*", "?", "foo", " (escaped)", " (glob)", "\u{3000}(glob)", "\u{a0}(?)", "\u{2003}(re*)", "$ ", "> ", "[1]"])
            .prop_map(|x| Piece::Bytes(x.as_bytes().to_vec())),
        5 => s("\\"),
        3 => proptest::sample::select(vec![0u8, 7, 8, 9, 0x0b, 0x0c, 0x0d, 0x1b, 0x1f, 0x7f])
            .prop_map(|x| Piece::Bytes(vec![x])),
        2 => proptest::sample::select(vec![0x80u8, 0x9f, 0xc3, 0xe2, 0xf0, 0xfe, 0xff])
            .prop_map(|x| Piece::Bytes(vec![x])),
        1 => b(b"\xe2\x80"),
        // non-ASCII of every flavour
        3 => proptest::sample::select(vec!["é", "世", "😀", "\u{a0}", "\u{3000}", "\u{2028}", "\u{2029}", "\u{301}", "ß", "\u{1F9EA}"])
            .prop_map(|x| Piece::Bytes(x.as_bytes().to_vec())),
        2 => proptest::sample::select(vec!['\u{200b}', '\u{feff}', '\u{ad}', '\u{8e2}', '\u{110bd}', '\u{e0001}', '\u{2066}'])
            .prop_map(|c| Piece::Bytes(c.to_string().into_bytes())),
        1 => proptest::sample::select(vec!['\u{e000}', '\u{f8ff}', '\u{f0000}', '\u{10fffd}'])
            .prop_map(|c| Piece::Bytes(c.to_string().into_bytes())),
        2 => proptest::sample::select(vec!['\u{378}', '\u{ffff}', '\u{fffe}', '\u{fdd0}', '\u{40000}', '\u{10ffff}', '\u{1fffe}'])
            .prop_map(|c| Piece::Bytes(c.to_string().into_bytes())),
        2 => any::<char>().prop_map(|c| Piece::Bytes(sanitize(c).to_string().into_bytes())),
        1 => any::<u8>().prop_map(|x| Piece::Bytes(vec![if x == b'\n' { 0 } else { x }])),
    ]
    .boxed()
}

fn case_strategy() -> BoxedStrategy<EscapeCase> {
    (
        vec(piece_strategy(), 0..8),
        any::<bool>(),
        any::<bool>(),
        0u8..5,
        any::<u16>(),
        prop_oneof![Just(b'\\'), Just(b't'), Just(b'\\'), Just(b'x'), Just(9u8), any::<u8>()],
    )
        .prop_map(|(pieces, final_lf, ascii, mutation, mpos, mbyte)| {
            let content: Vec<u8> = pieces
                .into_iter()
                .flat_map(|Piece::Bytes(b)| b)
                .collect();
            EscapeCase {
                content,
                final_lf,
                ascii,
                mutation,
                mpos,
                mbyte: if mbyte == b'\n' { 0 } else { mbyte },
            }
        })
        .boxed()
}

fn mutant(content: &[u8], c: &EscapeCase) -> Vec<u8> {
    let mut m = content.to_vec();
    match c.mutation {
        1 => m.insert(pick_idx(c.mpos, m.len() + 1), c.mbyte),
        2 => {
            if !m.is_empty() {
                m.remove(pick_idx(c.mpos, m.len()));
            }
        }
        3 => {
            if !m.is_empty() {
                let i = pick_idx(c.mpos, m.len());
                m[i] = if m[i] == c.mbyte { c.mbyte ^ 1 } else { c.mbyte };
            }
        }
        _ => {}
    }
    m.retain(|b| *b != b'\n');
    m
}

pub fn check_case(c: &EscapeCase) -> V {
    let content = &c.content;
    if content.contains(&b'\n') {
        return V::pass().label("lf_excluded");
    }
    let esc = if c.ascii { Escaper::Ascii } else { Escaper::Unicode };
    let mut line = content.clone();
    if c.final_lf {
        line.push(b'\n');
    }
    let text = std::str::from_utf8(content).ok();
    let has_bs = content.contains(&b'\\');
    let has_ctrl_or_bin = text.is_none() || content.iter().any(|b| *b < 0x20 || *b == 0x7f);
    let non_ascii = content.iter().any(|b| *b >= 0x80);
    let v = V::pass()
        .nt((has_bs && has_ctrl_or_bin) || text.is_none() || non_ascii)
        .label(if c.ascii { "ascii" } else { "unicode" })
        .label_if(text.is_none(), "invalid_utf8")
        .label_if(has_bs, "backslash")
        .label_if(non_ascii && text.is_some(), "non_ascii_text");

    let rendered = match guard(|| esc.escaped_expectation(&line)) {
        Ok(r) => r,
        Err(p) => return V::fail(format!("escaped_expectation crashed: {p}")),
    };

    // which characters of the content are forbidden / surely printable under the mode
    let (surely_printable, must_escape) = if c.ascii {
        let p = content.iter().all(|b| (0x20..=0x7e).contains(b));
        (p, !p)
    } else {
        match text {
            None => (false, true),
            Some(t) => (
                t.chars().all(|ch| in_table(SURELY_PRINTABLE, ch)),
                t.chars().any(|ch| in_table(FORBIDDEN, ch)),
            ),
        }
    };

    // root cause signatures (known findings)
    // (a) unicode mode: the only forbidden characters are ones the crate's tables do not know
    //     (unassigned code points, format characters newer than the table)
    let table_miss = !c.ascii
        && text
            .map(|t| {
                t.chars().any(|ch| in_table(FORBIDDEN, ch))
                    && t.chars().all(|ch| !in_table(FORBIDDEN, ch) || !ch.is_other())
            })
            .unwrap_or(false);
    // (b) content that needs escaping and ends in ` (no-eol)`: the escaped kind drops that tail
    let no_eol_tail = content.ends_with(b" (no-eol)");
    let classify = |msg: String| -> V {
        if table_miss {
            known_or_fail("unicode-unassigned-and-new-format-chars-not-escaped", msg)
        } else if no_eol_tail {
            known_or_fail("escaped-text-ending-in-no-eol-marker", msg)
        } else {
            V::fail(msg)
        }
    };

    // (P) printability of what is written
    for ch in rendered.chars() {
        let bad = if c.ascii {
            !(' '..='~').contains(&ch)
        } else {
            in_table(FORBIDDEN, ch)
        };
        if bad && !c.ascii && !ch.is_other() {
            // a forbidden character the crate's tables do not know about
            return known_or_fail(
                "unicode-unassigned-and-new-format-chars-not-escaped",
                format!(
                    "unicode mode writes U+{:04X} raw (content {:?} -> {:?})",
                    ch as u32,
                    lossy(content),
                    rendered
                ),
            );
        }
        if bad {
            return classify(format!(
                "{:?} mode writes {:?} for content {:?}: contains non-printable U+{:04X}",
                esc,
                rendered,
                lossy(content),
                ch as u32
            ));
        }
    }

    // (K) verbatim vs escaped form
    let verbatim = text.map(|t| t == rendered).unwrap_or(false);
    // printable text that would be read as test syntax (modifier, exit code, command) may -- and
    // for the read-back (R) must -- be written in escaped form
    let ambiguous = text
        .map(|t| {
            let (e, k, q) = crate::c08::r_expect_sep(t, false);
            !(e == t && k == "equal" && q.is_empty())
                || (t.len() >= 3
                    && t.starts_with('[')
                    && t.ends_with(']')
                    && t[1..t.len() - 1].chars().all(|ch| ch.is_ascii_digit()))
                || t.starts_with("$ ")
                || t.starts_with("> ")
                || t == "$"
                || t == ">"
        })
        .unwrap_or(false);
    if surely_printable && !verbatim && !ambiguous {
        return classify(format!(
            "printable content {:?} is not written verbatim but as {:?} ({:?})",
            lossy(content),
            rendered,
            esc
        ));
    }
    if must_escape && (verbatim || !rendered.ends_with(" (escaped)")) {
        return classify(format!(
            "content {:?} has non-printable parts but is written as {:?} without (escaped) ({:?})",
            lossy(content),
            rendered,
            esc
        ));
    }
    if !verbatim && !rendered.ends_with(" (escaped)") {
        return classify(format!(
            "{:?} is written as {:?}: neither verbatim nor marked (escaped)",
            lossy(content),
            rendered
        ));
    }

    // (H) the helper predicates agree
    let hu = match guard(|| esc.has_unprintable(content)) {
        Ok(h) => h,
        Err(p) => return V::fail(format!("has_unprintable crashed: {p}")),
    };
    if hu == verbatim && !(ambiguous && !hu && !verbatim) {
        return classify(format!(
            "has_unprintable={hu} but escaped_expectation wrote {:?} for {:?}",
            rendered,
            lossy(content)
        ));
    }
    if !verbatim && hu {
        let ep = match guard(|| esc.escaped_printable(content)) {
            Ok(h) => h,
            Err(p) => return V::fail(format!("escaped_printable crashed: {p}")),
        };
        if format!("{ep} (escaped)") != rendered && !no_eol_tail && !(content.starts_with(b"$ ") || content.starts_with(b"> ")) {
            return classify(format!(
                "escaped_printable gives {ep:?} but escaped_expectation gives {rendered:?}"
            ));
        }
    }

    // (R) read back as that kind of expectation
    let rule: Box<dyn scrut::rules::rule::Rule> = if verbatim {
        match with_maker(|m| guard(|| m.parse(&rendered))) {
            Ok(Ok(e)) => {
                let (kind, _, optional, multiline) = e.unmake();
                if kind != "equal" || optional || multiline {
                    return classify(format!(
                        "content {:?} is written verbatim but reads back as kind {kind} (optional={optional}, multiline={multiline})",
                        lossy(content)
                    ));
                }
                e.rule
            }
            Ok(Err(e)) => return classify(format!("verbatim {rendered:?} does not parse: {e:#}")),
            Err(p) => return V::fail(format!("parse crashed: {p}")),
        }
    } else {
        match with_maker(|m| guard(|| m.parse(&rendered))) {
            Ok(Ok(e)) => {
                let (kind, _, _, _) = e.unmake();
                if kind != "escaped" {
                    return classify(format!("{rendered:?} is read back as kind {kind}"));
                }
                e.rule
            }
            Ok(Err(e)) => {
                return classify(format!(
                    "content {:?} is written as {rendered:?} which does not parse: {e:#}",
                    lossy(content)
                ))
            }
            Err(p) => return V::fail(format!("parse crashed: {p}")),
        }
    };
    let (_, decoded) = rule.unmake();
    if &decoded != content {
        return classify(format!(
            "content {:?} is written as {rendered:?} ({:?}) which decodes to {:?}",
            lossy(content),
            esc,
            lossy(&decoded)
        ));
    }
    let mut with_lf = content.clone();
    with_lf.push(b'\n');
    if !rule.matches(&with_lf) {
        return classify(format!(
            "{rendered:?} does not match the line {:?} it was generated from",
            lossy(&with_lf)
        ));
    }
    // no line with different content matches
    let mut others = vec![mutant(content, c)];
    if !verbatim {
        others.push(rendered.as_bytes().to_vec());
        others.push(rendered.trim_end_matches(" (escaped)").as_bytes().to_vec());
    }
    for other in others {
        if &other == content {
            continue;
        }
        let mut o = other.clone();
        o.push(b'\n');
        if rule.matches(&o) || rule.matches(&other) {
            return classify(format!(
                "{rendered:?} (from content {:?}) also matches different content {:?}",
                lossy(content),
                lossy(&other)
            ));
        }
    }
    v.label(if verbatim { "verbatim" } else { "escaped" })
}

pub fn property() -> Property {
    Property {
        id: "C11",
        assumptions: vec![
            "printable in unicode mode = general category not C* per UCD 14.0.0 (python unicodedata); characters assigned between Unicode 3.2 and 14.0 may be written either way",
            "generated 'unassigned' code points are only those that stay unassigned (noncharacters, planes 4-13, decades-old BMP holes)",
            "the verbatim form is read back through the equal rule (modifier look-alikes are C09's root cause), the escaped form through ExpectationMaker::parse",
            "LF inside a line is outside the domain",
        ],
        parts: vec![Box::new(PropPart::<EscapeCase> {
            name: "escape",
            rule: "byte strings assembled from printable ASCII (incl. backslash next to t n r x 0 and hex digits), control bytes, invalid UTF-8 fragments, non-ASCII of every general category (Zs/Zl, Cf old and new, Co, stable unassigned), arbitrary chars/bytes; optional final LF; both escapers; one one-byte mutant per case. Non-trivial: backslash together with a control/binary byte, or invalid UTF-8, or non-ASCII",
            quick: 400_000,
            thorough: 30_000_000,
            max_workers: 0,
            strategy: Box::new(|_| case_strategy()),
            check: Box::new(check_case),
        })],
    }
}
