//! Byte-level entry points for the cargo-fuzz targets (and for replaying their artifacts).
//! Each returns Some(description) if the property's oracle fails on the decoded input.

use crate::engine::*;

fn verdict(v: V) -> Option<String> {
    v.fail
}

/// Documents reach the parsers through FileParser, which folds CR LF; the parsers themselves drop
/// one more CR before each LF (`str::lines`). A *run* of CRs before LF (CR CR LF files) therefore
/// loses one CR per pass: line-ending material, not line content. The byte-level targets work on
/// LF documents: every CR run directly before LF is folded away first, a CR run at the very end
/// is cut down to one CR (DESIGN.md section 6).
fn lf_document(data: &[u8]) -> String {
    let mut b = data.to_vec();
    loop {
        let folded = crate::c13::fold_crlf(&b);
        if folded.len() == b.len() {
            break;
        }
        b = folded;
    }
    // the same at the end of the text: a run of CRs there shrinks to the one CR that a truncated
    // CR LF document ends in
    while b.len() >= 2 && b[b.len() - 1] == b'\r' && b[b.len() - 2] == b'\r' {
        b.pop();
    }
    String::from_utf8_lossy(&b).to_string()
}

/// one fuzz binary serves one property: load its open known-finding keys once
fn init(property: &str) {
    static ONCE: std::sync::Once = std::sync::Once::new();
    ONCE.call_once(|| init_open_keys(property));
}

/// C06: any UTF-8 text as Markdown document (parser invariants only)
pub fn markdown(data: &[u8]) -> Option<String> {
    init("C06");
    let text = lf_document(data);
    match crate::c06::md_parse(&text) {
        Err(p) => Some(format!("Markdown parser crashed: {p}")),
        Ok(Err(_)) => None,
        Ok(Ok((_, tests))) => crate::c06::line_number_invariant(&text, &tests).err(),
    }
}

/// C10: any UTF-8 text as Markdown document; `update` with "every test produced no output and
/// exit code 0" must not crash, must keep the commands and, where the result passes, be idempotent
pub fn update(data: &[u8]) -> Option<String> {
    init("C10");
    let text = lf_document(data);
    match crate::c06::md_parse(&text) {
        Err(_) | Ok(Err(_)) => None, // the parser is C06's subject
        Ok(Ok((_, tests))) => crate::c10::fuzz_update(&text, &tests),
    }
}

/// C07: any UTF-8 text as Cram document
pub fn cram(data: &[u8]) -> Option<String> {
    init("C07");
    let text = lf_document(data);
    let lines: Vec<String> = text.lines().map(String::from).collect();
    verdict(crate::c07::check_soup_lines(&lines))
}

/// C08: any single line as expectation
pub fn expectation(data: &[u8]) -> Option<String> {
    init("C08");
    let line = String::from_utf8_lossy(data).replace(['\n', '\r'], " ");
    verdict(crate::c08::check_line(&crate::c08::LineCase { line, well_formed: false }))
}

/// C11: first byte = flags, rest = line content
pub fn escape(data: &[u8]) -> Option<String> {
    init("C11");
    if data.is_empty() {
        return None;
    }
    let flags = data[0];
    let content: Vec<u8> = data[1..].iter().copied().filter(|b| *b != b'\n').collect();
    // characters that may be assigned by a later Unicode version are outside the generated domain
    if let Ok(t) = std::str::from_utf8(&content) {
        if t.chars().any(|c| crate::c11::outside_domain(c)) {
            return None;
        }
    }
    verdict(crate::c11::check_case(&crate::c11::EscapeCase {
        content,
        final_lf: flags & 1 == 1,
        ascii: flags & 2 == 2,
        mutation: (flags >> 2) % 4,
        mpos: (flags as u16) << 8,
        mbyte: flags.wrapping_mul(31),
    }))
}

/// C02 (+C01, C03): text before the first NUL byte = expectation lines, rest = output
pub fn diff(data: &[u8]) -> Option<String> {
    init("C02");
    let split = data.iter().position(|b| *b == 0).unwrap_or(data.len());
    let exps: Vec<String> = String::from_utf8_lossy(&data[..split]).lines().map(String::from).collect();
    let output = if split < data.len() { data[split + 1..].to_vec() } else { vec![] };
    let case = crate::matcher::RealCase { exps, output, cram: data.len() % 2 == 1 };
    for which in [crate::matcher::Which::C02, crate::matcher::Which::C01, crate::matcher::Which::C03] {
        if let Some(m) = verdict(crate::matcher::check_real(which, &case)) {
            return Some(m);
        }
    }
    None
}

/// C19: structured decoding of the bytes into a list of outcomes
pub fn render(data: &[u8]) -> Option<String> {
    init("C19");
    let case = crate::c19::case_from_bytes(data)?;
    verdict(crate::c19::check_case(&case))
}

pub fn run_target(target: &str, data: &[u8]) -> Result<Option<String>, String> {
    Ok(match target {
        "markdown" => markdown(data),
        "update" => update(data),
        "cram" => cram(data),
        "expectation" => expectation(data),
        "escape" => escape(data),
        "diff" => diff(data),
        "render" => render(data),
        _ => return Err(format!("unknown fuzz target {target}")),
    })
}
