//! C04: each expectation kind matches exactly the lines the documentation says.
//! One generator + independent reference per kind.

use proptest::collection::vec;
use proptest::prelude::*;
use scrut::rules::glob_cram::CramGlobRule;
use scrut::rules::registry::RuleRegistry;
use scrut::rules::rule::{Rule, RuleMaker};
use serde::{Deserialize, Serialize};

use crate::engine::*;
use crate::matcher::{with_cram_maker, with_maker};

const ALPHA: &[char] = &['a', 'b', 'c', '1', 'é', ' ', '.', '|', '*', '-', '$', '^'];

fn strip_one_newline(line: &[u8]) -> &[u8] {
    if line.ends_with(b"\n") {
        &line[..line.len() - 1]
    } else {
        line
    }
}

fn make_rule(kind: &str, expr: &str) -> Result<Box<dyn Rule>, String> {
    let r = if kind == "cramglob" {
        guard(|| CramGlobRule::make(expr))
    } else {
        guard(|| RuleRegistry::default().make(kind, expr))
    };
    match r {
        Ok(Ok(r)) => Ok(r),
        Ok(Err(e)) => Err(format!("rule construction failed: {e:#}")),
        Err(p) => Err(format!("CRASH {p}")),
    }
}

/// matches through the rule and (when the expression cannot be mistaken for a modifier) through
/// the full `ExpectationMaker::parse(line)` path; both must agree.
fn scrut_matches(kind: &str, expr: &str, line: &[u8]) -> Result<bool, String> {
    let rule = make_rule(kind, expr)?;
    let direct = guard(|| rule.matches(line)).map_err(|p| format!("CRASH in matches: {p}"))?;
    if !expr.ends_with(')') && !expr.contains('\n') {
        let text = format!("{expr} ({})", if kind == "cramglob" { "glob" } else { kind });
        let parsed = if kind == "cramglob" {
            with_cram_maker(|m| guard(|| m.parse(&text)))
        } else {
            with_maker(|m| guard(|| m.parse(&text)))
        };
        match parsed {
            Ok(Ok(e)) => {
                let via = guard(|| e.matches(line)).map_err(|p| format!("CRASH in matches: {p}"))?;
                if via != direct {
                    return Err(format!(
                        "parse(`{text}`).matches = {via} but the {kind} rule for `{expr}` says {direct}"
                    ));
                }
            }
            Ok(Err(e)) => return Err(format!("parse(`{text}`) failed: {e:#}")),
            Err(p) => return Err(format!("CRASH in parse: {p}")),
        }
    }
    Ok(direct)
}

// ---------------------------------------------------------------------------
// equal / no-eol

#[derive(Clone, Debug, Serialize, Deserialize)]
pub struct EqCase {
    pub noeol: bool,
    pub expr: String,
    #[serde(with = "hexbytes")]
    pub line: Vec<u8>,
    pub mutation: u8,
}

fn text_strategy() -> BoxedStrategy<String> {
    prop_oneof![
        4 => vec(proptest::sample::select(ALPHA.to_vec()), 0..6).prop_map(|v| v.into_iter().collect::<String>()),
        2 => "[ -~]{0,12}",
        1 => "\\PC{0,8}".prop_map(|s: String| s.replace(['\n', '\r'], "")),
        1 => Just("foo (glob)".to_string()),
        1 => Just(" lead and trail ".to_string()),
        1 => Just("tab\there".to_string()),
    ]
    .boxed()
}

/// derive a candidate content from a positive by mutation code
fn mutate(content: &[u8], mutation: u8, pos: u16, byte: u8) -> Vec<u8> {
    let mut c = content.to_vec();
    match mutation {
        0 => {}
        1 => c.insert(0, byte),
        2 => c.push(byte),
        3 => {
            if !c.is_empty() {
                let i = pick_idx(pos, c.len());
                c[i] = if c[i] == byte { byte.wrapping_add(1) } else { byte };
            } else {
                c.push(byte)
            }
        }
        4 => {
            if !c.is_empty() {
                let i = pick_idx(pos, c.len());
                c.remove(i);
            } else {
                c.push(byte)
            }
        }
        _ => {}
    }
    // candidate lines never contain an interior LF (they come from the line splitter)
    c.retain(|b| *b != b'\n');
    c
}

fn eq_strategy() -> BoxedStrategy<EqCase> {
    (
        any::<bool>(),
        text_strategy(),
        0u8..5,
        any::<u16>(),
        prop_oneof![Just(b'a'), Just(b' '), Just(b'\r'), Just(b'\t'), Just(0xc3u8), any::<u8>()],
        0u8..4,
    )
        .prop_map(|(noeol, expr, mutation, pos, byte, nl)| {
            let mut line = mutate(expr.as_bytes(), mutation, pos, byte);
            match nl {
                0 => {}
                1 | 2 => line.push(b'\n'),
                _ => line.extend_from_slice(b"\r\n"),
            }
            EqCase {
                noeol,
                expr,
                line,
                mutation,
            }
        })
        .boxed()
}

fn check_eq(c: &EqCase) -> V {
    let kind = if c.noeol { "no-eol" } else { "equal" };
    let expected = if c.noeol {
        c.line == c.expr.as_bytes()
    } else {
        let mut e = c.expr.as_bytes().to_vec();
        e.push(b'\n');
        c.line == e
    };
    let v = V::pass()
        .nt(c.mutation != 0 || !c.expr.is_ascii())
        .label(kind)
        .label(if expected { "expected_match" } else { "expected_mismatch" });
    match scrut_matches(kind, &c.expr, &c.line) {
        Ok(got) if got == expected => v,
        Ok(got) => V::fail(format!(
            "{kind} `{}` vs line {:?}: scrut says {got}, documentation says {expected}",
            c.expr,
            lossy(&c.line)
        )),
        Err(e) => V::fail(e),
    }
}

// ---------------------------------------------------------------------------
// escaped: the decoded target is generated first, each byte rendered in a documented form

#[derive(Clone, Debug, Serialize, Deserialize)]
pub enum Tok {
    Lit(char),
    Hex(u8, bool),
    Tab,
    Backslash,
    Named(char),
}

impl Tok {
    pub fn bytes(&self) -> Vec<u8> {
        match self {
            Tok::Lit(c) => c.to_string().into_bytes(),
            Tok::Hex(b, _) => vec![*b],
            Tok::Tab => vec![b'\t'],
            Tok::Backslash => vec![b'\\'],
            Tok::Named(c) => vec![match c {
                'a' => 7,
                'b' => 8,
                'e' => 0x1b,
                'f' => 0x0c,
                'r' => b'\r',
                _ => 0x0b,
            }],
        }
    }
    pub fn render(&self) -> String {
        match self {
            Tok::Lit(c) => c.to_string(),
            Tok::Hex(b, upper) => {
                if *upper {
                    format!("\\x{:02X}", b)
                } else {
                    format!("\\x{:02x}", b)
                }
            }
            Tok::Tab => "\\t".into(),
            Tok::Backslash => "\\\\".into(),
            Tok::Named(c) => format!("\\{c}"),
        }
    }
}

#[derive(Clone, Debug, Serialize, Deserialize)]
pub struct EscCase {
    pub toks: Vec<Tok>,
    #[serde(with = "hexbytes")]
    pub line: Vec<u8>,
    pub mutation: u8,
}

fn tok_strategy() -> BoxedStrategy<Tok> {
    prop_oneof![
        6 => proptest::sample::select(vec!['a', 'b', 'x', 't', 'n', '0', '4', '1', ' ', 'é', '世', '(', ')', '*', 'F'])
            .prop_map(Tok::Lit),
        4 => (any::<u8>(), any::<bool>()).prop_map(|(b, u)| Tok::Hex(if b == b'\n' { 0 } else { b }, u)),
        2 => Just(Tok::Tab),
        3 => Just(Tok::Backslash),
        1 => proptest::sample::select(vec!['a', 'b', 'e', 'f', 'r', 'v']).prop_map(Tok::Named),
    ]
    .boxed()
}

fn esc_strategy() -> BoxedStrategy<EscCase> {
    (
        vec(tok_strategy(), 0..8),
        0u8..5,
        any::<u16>(),
        prop_oneof![Just(b'\\'), Just(b't'), Just(b'x'), Just(b'\t'), any::<u8>()],
        0u8..3,
    )
        .prop_map(|(toks, mutation, pos, byte, nl)| {
            let target: Vec<u8> = toks.iter().flat_map(|t| t.bytes()).collect();
            let mut line = mutate(&target, mutation, pos, byte);
            if nl != 0 {
                line.push(b'\n');
            }
            EscCase {
                toks,
                line,
                mutation,
            }
        })
        .boxed()
}

fn check_esc(c: &EscCase) -> V {
    let expr: String = c.toks.iter().map(|t| t.render()).collect();
    let target: Vec<u8> = c.toks.iter().flat_map(|t| t.bytes()).collect();
    // an expression ending in ` (no-eol)` is Cram compatibility syntax, not generated here
    let expected = strip_one_newline(&c.line) == target.as_slice();
    let has_escape = c.toks.iter().any(|t| !matches!(t, Tok::Lit(_)));
    let v = V::pass()
        .nt(has_escape && c.mutation != 0)
        .label("escaped")
        .label_if(c.toks.iter().any(|t| matches!(t, Tok::Backslash)), "backslash")
        .label(if expected { "expected_match" } else { "expected_mismatch" });
    match scrut_matches("escaped", &expr, &c.line) {
        Ok(got) if got == expected => v,
        Ok(got) => V::fail(format!(
            "escaped `{expr}` (decodes to {:?}) vs line {:?}: scrut says {got}, documentation says {expected}",
            lossy(&target),
            lossy(&c.line)
        )),
        Err(e) => V::fail(e),
    }
}

// ---------------------------------------------------------------------------
// glob (default flavour = wildmatch, Cram flavour = anchored regex with \* \? \\)

#[derive(Clone, Debug, Serialize, Deserialize)]
pub struct GlobCase {
    pub cram: bool,
    pub pattern: String,
    #[serde(with = "hexbytes")]
    pub line: Vec<u8>,
    pub mutation: u8,
}

const GLOB_PAT: &[char] = &['a', 'b', 'é', '*', '?', ' ', '[', '\\', '.', '*', '?'];
const GLOB_TXT: &[char] = &['a', 'b', 'é', ' ', '[', '\\', '*', '?', '.', 'x'];

/// reference: `?` exactly one character, `*` any run (also empty), whole content.
/// `cram`: `\*`, `\?`, `\\` are literal characters.
pub fn glob_ref(pattern: &[char], text: &[char], cram: bool) -> bool {
    #[derive(Clone, Copy)]
    enum P {
        Star,
        One,
        Ch(char),
    }
    let mut ps = vec![];
    let mut i = 0;
    while i < pattern.len() {
        let ch = pattern[i];
        i += 1;
        if cram && ch == '\\' && i < pattern.len() && ['*', '?', '\\'].contains(&pattern[i]) {
            ps.push(P::Ch(pattern[i]));
            i += 1;
        } else if ch == '*' {
            ps.push(P::Star);
        } else if ch == '?' {
            ps.push(P::One);
        } else {
            ps.push(P::Ch(ch));
        }
    }
    let (n, m) = (ps.len(), text.len());
    let mut dp = vec![vec![false; m + 1]; n + 1];
    dp[n][m] = true;
    for pi in (0..n).rev() {
        for ti in (0..=m).rev() {
            dp[pi][ti] = match ps[pi] {
                P::Star => dp[pi + 1][ti] || (ti < m && dp[pi][ti + 1]),
                P::One => ti < m && dp[pi + 1][ti + 1],
                P::Ch(c) => ti < m && text[ti] == c && dp[pi + 1][ti + 1],
            };
        }
    }
    dp[0][0]
}

/// byte-level reference for patterns without `?`: `*` is any run of bytes, every other character
/// stands for its UTF-8 bytes. Independent of how undecodable bytes are grouped into characters,
/// so it also decides lines that are not valid UTF-8 (UTF-8 is self-synchronising: a literal can
/// only match at character boundaries of the valid parts).
pub fn glob_ref_bytes(pattern: &[char], text: &[u8], cram: bool) -> bool {
    let mut ps: Vec<Option<u8>> = vec![]; // None = star
    let mut i = 0;
    while i < pattern.len() {
        let mut ch = pattern[i];
        i += 1;
        let mut literal = true;
        if cram && ch == '\\' && i < pattern.len() && ['*', '?', '\\'].contains(&pattern[i]) {
            ch = pattern[i];
            i += 1;
        } else if ch == '*' {
            literal = false;
        }
        if literal {
            let mut buf = [0u8; 4];
            ps.extend(ch.encode_utf8(&mut buf).bytes().map(Some));
        } else {
            ps.push(None);
        }
    }
    let (n, m) = (ps.len(), text.len());
    let mut dp = vec![vec![false; m + 1]; n + 1];
    dp[n][m] = true;
    for pi in (0..n).rev() {
        for ti in (0..=m).rev() {
            dp[pi][ti] = match ps[pi] {
                None => dp[pi + 1][ti] || (ti < m && dp[pi][ti + 1]),
                Some(b) => ti < m && text[ti] == b && dp[pi + 1][ti + 1],
            };
        }
    }
    dp[0][0]
}

/// sample a text matched by the pattern (wildcards replaced by seeds)
fn glob_positive(pattern: &[char], cram: bool, seeds: &[u16]) -> String {
    let mut out = String::new();
    let mut s = seeds.iter().cycle();
    let mut i = 0;
    while i < pattern.len() {
        let ch = pattern[i];
        i += 1;
        if cram && ch == '\\' && i < pattern.len() && ['*', '?', '\\'].contains(&pattern[i]) {
            out.push(pattern[i]);
            i += 1;
        } else if ch == '*' {
            let n = pick_idx(*s.next().unwrap(), 3);
            for _ in 0..n {
                out.push(GLOB_TXT[pick_idx(*s.next().unwrap(), GLOB_TXT.len())]);
            }
        } else if ch == '?' {
            out.push(GLOB_TXT[pick_idx(*s.next().unwrap(), GLOB_TXT.len())]);
        } else {
            out.push(ch);
        }
    }
    out
}

fn glob_strategy() -> BoxedStrategy<GlobCase> {
    (
        any::<bool>(),
        vec(proptest::sample::select(GLOB_PAT.to_vec()), 0..7),
        vec(any::<u16>(), 6),
        0u8..6,
        any::<u16>(),
        proptest::sample::select(GLOB_TXT.to_vec()),
        0u8..4,
        proptest::bool::weighted(0.04),
    )
        .prop_map(|(cram, pat, seeds, mutation, pos, ch, nl, invalid)| {
            let pattern: String = pat.iter().collect();
            let positive = glob_positive(&pat, cram, &seeds);
            let mut chars: Vec<char> = positive.chars().collect();
            match mutation {
                1 => chars.insert(0, ch),
                2 => chars.push(ch),
                3 => {
                    if !chars.is_empty() {
                        let i = pick_idx(pos, chars.len());
                        chars[i] = if chars[i] == ch { 'q' } else { ch };
                    }
                }
                4 => {
                    if !chars.is_empty() {
                        let i = pick_idx(pos, chars.len());
                        chars.remove(i);
                    }
                }
                5 => {
                    chars = seeds
                        .iter()
                        .take(pick_idx(pos, 6))
                        .map(|s| GLOB_TXT[pick_idx(*s, GLOB_TXT.len())])
                        .collect()
                }
                _ => {}
            }
            let mut line: Vec<u8> = chars.iter().collect::<String>().into_bytes();
            if invalid {
                line.push(0xff);
            }
            match nl {
                0 => {}
                1 | 2 => line.push(b'\n'),
                _ => line.extend_from_slice(b"\r\n"),
            }
            GlobCase {
                cram,
                pattern,
                line,
                mutation,
            }
        })
        .boxed()
}

fn check_glob(c: &GlobCase) -> V {
    let kind = if c.cram { "cramglob" } else { "glob" };
    let content = strip_one_newline(&c.line);
    let got = match scrut_matches(kind, &c.pattern, &c.line) {
        Ok(g) => g,
        Err(e) => {
            // a trailing lone backslash or `(escaped)` tail is not generated; any error is a failure
            return V::fail(format!("{kind} `{}`: {e}", c.pattern));
        }
    };
    let Ok(text) = std::str::from_utf8(content) else {
        // "one character" is undefined on invalid UTF-8; patterns without `?` (and without a
        // literal U+FFFD, which a lossy decoding would make match undecodable bytes) are decided
        // by the byte-level reference, the rest is crash detection only
        if !c.pattern.contains('?') && !c.pattern.contains('\u{fffd}') {
            let pat: Vec<char> = c.pattern.chars().collect();
            let expected = glob_ref_bytes(&pat, content, c.cram);
            let v = V::pass()
                .nt(c.pattern.contains('*'))
                .label(kind)
                .label("invalid_utf8_line_decided_bytewise")
                .label(if expected { "expected_match" } else { "expected_mismatch" });
            return if got == expected {
                v
            } else {
                V::fail(format!(
                    "{kind} `{}` vs line {:?} (not valid UTF-8): scrut says {got}, `*` = any run of characters says {expected}",
                    c.pattern,
                    lossy(&c.line)
                ))
            };
        }
        let mut v = V::pass().label(kind).label("unasserted_invalid_utf8");
        v.unasserted = true;
        return v;
    };
    let pat: Vec<char> = c.pattern.chars().collect();
    let txt: Vec<char> = text.chars().collect();
    let expected = glob_ref(&pat, &txt, c.cram);
    let wild = c.pattern.contains('*') || c.pattern.contains('?');
    let v = V::pass()
        .nt(wild && (1..=4).contains(&c.mutation))
        .label(kind)
        .label(if expected { "expected_match" } else { "expected_mismatch" });
    if got == expected {
        v
    } else {
        V::fail(format!(
            "{kind} `{}` vs line {:?}: scrut says {got}, documentation says {expected}",
            c.pattern,
            lossy(&c.line)
        ))
    }
}

// ---------------------------------------------------------------------------
// regex: AST generator, renderer, backtracking full-match reference

#[derive(Clone, Debug, Serialize, Deserialize)]
pub enum Ast {
    Empty,
    /// `^` / `$` written by the user (redundant with the implicit whole-line anchoring, but legal
    /// anywhere, e.g. inside one alternative)
    Bol,
    Eol,
    Lit(char),
    Any,
    Digit,
    Class { neg: bool, items: Vec<(char, char)> },
    Cat(Vec<Ast>),
    Alt(Vec<Ast>),
    /// form: 0 `*`, 1 `+`, 2 `?`, 3 `{n}`, 4 `{n,m}`
    Rep { inner: Box<Ast>, min: u8, max: Option<u8>, form: u8 },
    Group { inner: Box<Ast>, capturing: bool },
}

const META: &[char] = &['\\', '.', '+', '*', '?', '(', ')', '|', '[', ']', '{', '}', '^', '$', '-'];

impl Ast {
    fn is_atom(&self) -> bool {
        matches!(
            self,
            Ast::Lit(_) | Ast::Any | Ast::Digit | Ast::Class { .. } | Ast::Group { .. }
        )
    }
    pub fn render(&self) -> String {
        match self {
            Ast::Empty => String::new(),
            Ast::Bol => "^".into(),
            Ast::Eol => "$".into(),
            Ast::Lit(c) => {
                if META.contains(c) && *c != '-' {
                    format!("\\{c}")
                } else {
                    c.to_string()
                }
            }
            Ast::Any => ".".into(),
            Ast::Digit => "\\d".into(),
            Ast::Class { neg, items } => {
                let mut s = String::from("[");
                if *neg {
                    s.push('^');
                }
                for (a, b) in items {
                    if a == b {
                        s.push(*a);
                    } else {
                        s.push(*a);
                        s.push('-');
                        s.push(*b);
                    }
                }
                s.push(']');
                s
            }
            Ast::Cat(v) => v
                .iter()
                .map(|a| match a {
                    Ast::Alt(_) => format!("(?:{})", a.render()),
                    _ => a.render(),
                })
                .collect(),
            Ast::Alt(v) => v.iter().map(|a| a.render()).collect::<Vec<_>>().join("|"),
            Ast::Rep {
                inner,
                min,
                max,
                form,
            } => {
                let base = if inner.is_atom() {
                    inner.render()
                } else {
                    format!("(?:{})", inner.render())
                };
                match form {
                    0 => format!("{base}*"),
                    1 => format!("{base}+"),
                    2 => format!("{base}?"),
                    3 => format!("{base}{{{min}}}"),
                    _ => format!("{base}{{{min},{}}}", max.unwrap_or(*min)),
                }
            }
            Ast::Group { inner, capturing } => {
                if *capturing {
                    format!("({})", inner.render())
                } else {
                    format!("(?:{})", inner.render())
                }
            }
        }
    }

    fn interesting(&self) -> bool {
        match self {
            Ast::Empty | Ast::Lit(_) => false,
            Ast::Bol | Ast::Eol => true,
            Ast::Any | Ast::Digit | Ast::Class { .. } | Ast::Alt(_) | Ast::Rep { .. } => true,
            Ast::Cat(v) => v.iter().any(|a| a.interesting()),
            Ast::Group { inner, .. } => inner.interesting(),
        }
    }

    /// full-match reference (backtracking with continuations)
    fn m(&self, s: &[char], i: usize, k: &mut dyn FnMut(usize) -> bool) -> bool {
        match self {
            Ast::Empty => k(i),
            Ast::Bol => i == 0 && k(i),
            Ast::Eol => i == s.len() && k(i),
            Ast::Lit(c) => i < s.len() && s[i] == *c && k(i + 1),
            Ast::Any => i < s.len() && s[i] != '\n' && k(i + 1),
            Ast::Digit => i < s.len() && s[i].is_ascii_digit() && k(i + 1),
            Ast::Class { neg, items } => {
                if i >= s.len() {
                    return false;
                }
                let inside = items.iter().any(|(a, b)| *a <= s[i] && s[i] <= *b);
                (inside != *neg) && k(i + 1)
            }
            Ast::Cat(v) => Self::cat(v, s, i, k),
            Ast::Alt(v) => v.iter().any(|a| a.m(s, i, k)),
            Ast::Group { inner, .. } => inner.m(s, i, k),
            Ast::Rep {
                inner, min, max, ..
            } => Self::rep(inner, *min as usize, max.map(|m| m as usize), 0, s, i, k),
        }
    }
    fn cat(v: &[Ast], s: &[char], i: usize, k: &mut dyn FnMut(usize) -> bool) -> bool {
        match v.split_first() {
            None => k(i),
            Some((first, rest)) => first.m(s, i, &mut |j| Self::cat(rest, s, j, k)),
        }
    }
    fn rep(
        inner: &Ast,
        min: usize,
        max: Option<usize>,
        count: usize,
        s: &[char],
        i: usize,
        k: &mut dyn FnMut(usize) -> bool,
    ) -> bool {
        if max.map(|m| count < m).unwrap_or(true) {
            let more = inner.m(s, i, &mut |j| {
                // an empty iteration can be repeated at will: `min` is satisfiable, stop looping
                if j == i {
                    return k(j);
                }
                Self::rep(inner, min, max, count + 1, s, j, k)
            });
            if more {
                return true;
            }
        }
        count >= min && k(i)
    }
    pub fn full_match(&self, text: &str) -> bool {
        let s: Vec<char> = text.chars().collect();
        let n = s.len();
        self.m(&s, 0, &mut |j| j == n)
    }

    /// sample a member of the language (None if a negated class excludes the whole alphabet)
    fn sample(&self, seeds: &mut dyn Iterator<Item = u16>, out: &mut String) -> Option<()> {
        match self {
            Ast::Empty | Ast::Bol | Ast::Eol => {}
            Ast::Lit(c) => out.push(*c),
            Ast::Any => out.push(ALPHA[pick_idx(seeds.next()?, ALPHA.len())]),
            Ast::Digit => out.push('1'),
            Ast::Class { neg, items } => {
                let cands: Vec<char> = ALPHA
                    .iter()
                    .copied()
                    .filter(|c| items.iter().any(|(a, b)| a <= c && c <= b) != *neg)
                    .collect();
                if cands.is_empty() {
                    return None;
                }
                out.push(cands[pick_idx(seeds.next()?, cands.len())]);
            }
            Ast::Cat(v) => {
                for a in v {
                    a.sample(seeds, out)?;
                }
            }
            Ast::Alt(v) => v[pick_idx(seeds.next()?, v.len())].sample(seeds, out)?,
            Ast::Group { inner, .. } => inner.sample(seeds, out)?,
            Ast::Rep {
                inner, min, max, ..
            } => {
                let hi = max.map(|m| m as usize).unwrap_or(*min as usize + 2);
                let n = *min as usize + pick_idx(seeds.next()?, hi - *min as usize + 1);
                for _ in 0..n {
                    inner.sample(seeds, out)?;
                }
            }
        }
        Some(())
    }
}

pub fn regex_ast_strategy() -> BoxedStrategy<Ast> {
    ast_strategy()
}

pub fn esc_tok_strategy() -> BoxedStrategy<Tok> {
    tok_strategy()
}

fn ast_strategy() -> BoxedStrategy<Ast> {
    let lit = proptest::sample::select(ALPHA.to_vec()).prop_map(Ast::Lit);
    let class = (
        any::<bool>(),
        vec(
            prop_oneof![
                Just(('a', 'a')),
                Just(('b', 'b')),
                Just(('a', 'c')),
                Just(('1', '1')),
                Just(('0', '9')),
                Just(('é', 'é')),
                Just((' ', ' ')),
            ],
            1..3,
        ),
    )
        .prop_map(|(neg, items)| Ast::Class { neg, items });
    let leaf = prop_oneof![
        6 => lit,
        2 => Just(Ast::Any),
        1 => Just(Ast::Digit),
        2 => class,
        1 => Just(Ast::Empty),
    ];
    let tree = leaf.prop_recursive(3, 14, 3, |inner| {
        prop_oneof![
            3 => vec(inner.clone(), 2..4).prop_map(Ast::Cat),
            3 => vec(inner.clone(), 2..4).prop_map(Ast::Alt),
            3 => (inner.clone(), 0u8..5, 0u8..3, 0u8..3).prop_map(|(a, form, n, extra)| {
                let (min, max) = match form {
                    0 => (0, None),
                    1 => (1, None),
                    2 => (0, Some(1)),
                    3 => (n, Some(n)),
                    _ => (n, Some(n + extra)),
                };
                // the regex crate rejects a repetition of a repetition without a group only for
                // some forms; always group nested repetitions
                Ast::Rep { inner: Box::new(a), min, max, form }
            }),
            1 => (inner, any::<bool>()).prop_map(|(a, capturing)| Ast::Group { inner: Box::new(a), capturing }),
        ]
    });
    // alternation at the very top in 40% of the cases; user-written anchors around the whole
    // expression or around single alternatives
    let top = prop_oneof![
        3 => tree.clone(),
        2 => vec(tree.clone(), 2..4).prop_map(Ast::Alt),
    ];
    prop_oneof![
        6 => top.clone(),
        1 => top.clone().prop_map(|a| match a {
            // `^a|b$`: the anchors bind to the first and the last alternative
            Ast::Alt(mut v) => {
                let n = v.len();
                v[0] = Ast::Cat(vec![Ast::Bol, v[0].clone()]);
                v[n - 1] = Ast::Cat(vec![v[n - 1].clone(), Ast::Eol]);
                Ast::Alt(v)
            }
            other => Ast::Cat(vec![Ast::Bol, other, Ast::Eol]),
        }),
        1 => top.prop_map(|a| Ast::Cat(vec![Ast::Bol, a, Ast::Lit('$')])),
    ]
    .boxed()
}

#[derive(Clone, Debug, Serialize, Deserialize)]
pub struct RegexCase {
    pub ast: Ast,
    pub line: String,
    pub mutation: u8,
}

fn regex_strategy() -> BoxedStrategy<RegexCase> {
    (
        ast_strategy(),
        vec(any::<u16>(), 24),
        0u8..6,
        any::<u16>(),
        proptest::sample::select(ALPHA.to_vec()),
        0u8..4,
    )
        .prop_map(|(ast, seeds, mutation, pos, ch, nl)| {
            let mut positive = String::new();
            let mut it = seeds.iter().copied().cycle();
            if ast.sample(&mut it, &mut positive).is_none() {
                positive = "ab".into();
            }
            let mut chars: Vec<char> = positive.chars().collect();
            match mutation {
                1 => chars.insert(0, ch),
                2 => chars.push(ch),
                3 => {
                    if !chars.is_empty() {
                        let i = pick_idx(pos, chars.len());
                        chars[i] = if chars[i] == ch { 'q' } else { ch };
                    } else {
                        chars.push(ch)
                    }
                }
                4 => {
                    if !chars.is_empty() {
                        let i = pick_idx(pos, chars.len());
                        chars.remove(i);
                    } else {
                        chars.push(ch)
                    }
                }
                5 => {
                    chars = seeds
                        .iter()
                        .take(pick_idx(pos, 5))
                        .map(|s| ALPHA[pick_idx(*s, ALPHA.len())])
                        .collect()
                }
                _ => {}
            }
            let mut line: String = chars.into_iter().collect();
            match nl {
                0 => {}
                1 | 2 => line.push('\n'),
                _ => line.push_str("\r\n"),
            }
            RegexCase { ast, line, mutation }
        })
        .boxed()
}

fn check_regex(c: &RegexCase) -> V {
    let expr = c.ast.render();
    let content = c.line.strip_suffix('\n').unwrap_or(&c.line);
    let expected = c.ast.full_match(content);
    let top_alt = matches!(c.ast, Ast::Alt(_));
    let v = V::pass()
        .nt(c.ast.interesting() && (1..=4).contains(&c.mutation))
        .label("regex")
        .label_if(top_alt, "top_level_alternation")
        .label(if expected { "expected_match" } else { "expected_mismatch" });
    match scrut_matches("regex", &expr, c.line.as_bytes()) {
        Ok(got) if got == expected => v,
        Ok(got) => V::fail(format!(
            "regex `{expr}` vs line {:?}: scrut says {got}, a whole-line match says {expected}",
            c.line
        )),
        Err(e) => V::fail(format!("regex `{expr}`: {e}")),
    }
}

// ---------------------------------------------------------------------------

pub fn property() -> Property {
    Property {
        id: "C04",
        assumptions: vec![
            "equal/no-eol/escaped/glob semantics as written in website/docs/reference/fundamentals/output-expectations.md",
            "regex reference: backtracking interpreter of the generated AST (literals, ., \\d, classes, * + ? {n} {n,m}, groups, alternation at every level); only syntax shared by every regex dialect is generated",
            "candidate lines have at most one trailing LF and no interior LF (they come from the line splitter)",
            "verdicts on lines that are not valid UTF-8 are not asserted for glob (one character is undefined there)",
        ],
        parts: vec![
            Box::new(PropPart::<EqCase> {
                name: "equal",
                rule: "expression text (ASCII, Unicode, modifier look-alikes) x candidate line = expression mutated by prefix/suffix/replace/delete, with LF / CRLF / no newline; equal and no-eol. Non-trivial: mutated candidate or non-ASCII expression",
                quick: 60_000,
                thorough: 3_000_000,
                max_workers: 0,
                strategy: Box::new(|_| eq_strategy()),
                check: Box::new(check_eq),
            }),
            Box::new(PropPart::<EscCase> {
                name: "escaped",
                rule: "decoded target bytes generated first, each byte rendered as literal / \\xHH (both cases) / \\t / \\\\ / named control escape; candidate = target or one-byte mutant, with or without LF. Non-trivial: expression contains an escape and the candidate is a mutant",
                quick: 60_000,
                thorough: 3_000_000,
                max_workers: 0,
                strategy: Box::new(|_| esc_strategy()),
                check: Box::new(check_esc),
            }),
            Box::new(PropPart::<GlobCase> {
                name: "glob",
                rule: "patterns over {a b é * ? space [ \\ .}, default (wildmatch) and Cram flavour; candidate = sampled positive, then prefix/suffix/replace/delete mutant or random text; reference = 20-line DP. Non-trivial: pattern has a wildcard and candidate is a near miss",
                quick: 80_000,
                thorough: 3_000_000,
                max_workers: 0,
                strategy: Box::new(|_| glob_strategy()),
                check: Box::new(check_glob),
            }),
            Box::new(PropPart::<RegexCase> {
                name: "regex",
                rule: "regex AST (depth<=3) with alternation at every level incl. the top, rendered to text; candidate = sampled member of the language, then near-miss mutants; reference = backtracking whole-line interpreter of the AST. Non-trivial: AST has a wildcard/class/alternation/repetition and the candidate is a near miss",
                quick: 80_000,
                thorough: 3_000_000,
                max_workers: 0,
                strategy: Box::new(|_| regex_strategy()),
                check: Box::new(check_regex),
            }),
        ],
    }
}
