//! G-config: generators for TestCaseConfig / DocumentConfig, in a serialisable mirror form.

use std::collections::BTreeMap;
use std::path::PathBuf;
use std::time::Duration;

use proptest::collection::vec;
use proptest::prelude::*;
use scrut::config::{DocumentConfig, OutputStreamControl, TestCaseConfig, TestCaseWait};
use serde::{Deserialize, Serialize};

/// serialisable mirror of TestCaseConfig (durations in milliseconds)
#[derive(Clone, Debug, Default, PartialEq, Serialize, Deserialize)]
pub struct TcCfg {
    pub detached: Option<bool>,
    pub environment: BTreeMap<String, String>,
    pub keep_crlf: Option<bool>,
    /// 1 stdout 2 stderr 3 combined
    pub output_stream: Option<u8>,
    pub skip_document_code: Option<i32>,
    pub strip_ansi_escaping: Option<bool>,
    pub timeout_ms: Option<u64>,
    pub wait: Option<(u64, Option<String>)>,
}

impl TcCfg {
    pub fn to_config(&self) -> TestCaseConfig {
        TestCaseConfig {
            detached: self.detached,
            environment: self.environment.clone(),
            keep_crlf: self.keep_crlf,
            output_stream: self.output_stream.map(|s| match s {
                1 => OutputStreamControl::Stdout,
                2 => OutputStreamControl::Stderr,
                _ => OutputStreamControl::Combined,
            }),
            skip_document_code: self.skip_document_code,
            strip_ansi_escaping: self.strip_ansi_escaping,
            timeout: self.timeout_ms.map(Duration::from_millis),
            wait: self.wait.as_ref().map(|(ms, path)| TestCaseWait {
                timeout: Duration::from_millis(*ms),
                path: path.as_ref().map(PathBuf::from),
            }),
        }
    }
    pub fn keys_set(&self) -> usize {
        self.detached.is_some() as usize
            + (!self.environment.is_empty()) as usize
            + self.keep_crlf.is_some() as usize
            + self.output_stream.is_some() as usize
            + self.skip_document_code.is_some() as usize
            + self.strip_ansi_escaping.is_some() as usize
            + self.timeout_ms.is_some() as usize
            + self.wait.is_some() as usize
    }
}

#[derive(Clone, Debug, Default, PartialEq, Serialize, Deserialize)]
pub struct DocCfg {
    pub append: Vec<String>,
    pub prepend: Vec<String>,
    pub defaults: TcCfg,
    pub shell: Option<String>,
    pub total_timeout_ms: Option<u64>,
}

impl DocCfg {
    pub fn to_config(&self) -> DocumentConfig {
        DocumentConfig {
            append: self.append.iter().map(PathBuf::from).collect(),
            prepend: self.prepend.iter().map(PathBuf::from).collect(),
            defaults: self.defaults.to_config(),
            shell: self.shell.as_ref().map(PathBuf::from),
            total_timeout: self.total_timeout_ms.map(Duration::from_millis),
        }
    }
}

pub const ENV_NAMES: &[&str] = &["FOO", "BAR", "foo_bar", "_X1", "A", "PATHX", "Z9"];
pub const NASTY: &[&str] = &[
    "plain",
    "",
    "with space",
    " leading and trailing ",
    "quote\"inside",
    "single'quote",
    "back\\slash",
    "a\\nb",
    "colon: here",
    "{brace}",
    "a, b",
    "# hash",
    "tail #c",
    "ünï-世界",
    "$HOME",
    "true",
    "null",
    "~",
    "123",
    "- dash",
    "[x]",
    "a: b, c: d",
    "%percent",
    "@at",
    "`tick`",
    "!bang",
    "*star",
    "&amp",
    "|pipe",
    ">gt",
    "tab\there",
];
pub const PATHS: &[&str] = &[
    "the-wait-path",
    "sub/dir/file.txt",
    "with space",
    "trailing blank ",
    " leading blank",
    "ready file ",
    "  ",
    "a, b",
    "colon: x",
    "quote\"q",
    "brace}",
    "ünï",
    "#hash",
    "back\\slash",
    "true",
    "123",
];

/// durations from milliseconds to days; `fine` adds a sub-second part
pub fn duration_ms() -> BoxedStrategy<u64> {
    prop_oneof![
        Just(0u64),
        1u64..1000,
        (1u64..120).prop_map(|s| s * 1000),
        (1u64..600, 0u64..1000).prop_map(|(s, ms)| s * 1000 + ms),
        (1u64..72).prop_map(|h| h * 3_600_000),
        (1u64..10, 0u64..24, 0u64..60).prop_map(|(d, h, m)| d * 86_400_000 + h * 3_600_000 + m * 60_000),
        Just(900_000u64),
        Just(900_500u64),
    ]
    .boxed()
}

pub fn env_strategy(names: &'static [&'static str], values: &'static [&'static str]) -> BoxedStrategy<BTreeMap<String, String>> {
    vec(
        (
            proptest::sample::select(names.to_vec()),
            prop_oneof![
                4 => proptest::sample::select(values.to_vec()).prop_map(String::from),
                1 => "[ -~]{0,12}",
                1 => "\\PC{0,6}".prop_map(|s: String| s.replace(['\n', '\r'], "")),
            ],
        ),
        0..4,
    )
    .prop_map(|kv| kv.into_iter().map(|(k, v)| (k.to_string(), v)).collect())
    .boxed()
}

/// every subset of keys, nasty values
pub fn tc_strategy() -> BoxedStrategy<TcCfg> {
    (
        proptest::option::of(any::<bool>()),
        prop_oneof![2 => Just(BTreeMap::new()), 3 => env_strategy(ENV_NAMES, NASTY)],
        proptest::option::of(any::<bool>()),
        proptest::option::of(1u8..4),
        proptest::option::of(prop_oneof![Just(80), Just(0), 1..256i32]),
        proptest::option::of(any::<bool>()),
        proptest::option::of(duration_ms()),
        proptest::option::of((
            duration_ms(),
            proptest::option::of(proptest::sample::select(PATHS.to_vec()).prop_map(String::from)),
        )),
    )
        .prop_map(
            |(detached, environment, keep_crlf, output_stream, skip_document_code, strip_ansi_escaping, timeout_ms, wait)| TcCfg {
                detached,
                environment,
                keep_crlf,
                output_stream,
                skip_document_code,
                strip_ansi_escaping,
                timeout_ms,
                wait,
            },
        )
        .boxed()
}

pub fn doc_strategy() -> BoxedStrategy<DocCfg> {
    (
        vec(proptest::sample::select(PATHS.to_vec()).prop_map(String::from), 0..3),
        vec(proptest::sample::select(PATHS.to_vec()).prop_map(String::from), 0..3),
        tc_strategy(),
        proptest::option::of(proptest::sample::select(vec!["/bin/bash", "bash", "my shell", "sh: x"]).prop_map(String::from)),
        proptest::option::of(duration_ms()),
    )
        .prop_map(|(append, prepend, defaults, shell, total_timeout_ms)| DocCfg {
            append,
            prepend,
            defaults,
            shell,
            total_timeout_ms,
        })
        .boxed()
}
