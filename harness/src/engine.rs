//! Generic property engine: proptest runners on worker threads, statistics,
//! shrinking to replay files, evidence files, known findings, regressions.
//!
//! Every random choice is made by proptest strategies seeded from VERIF_SEED.

use std::cell::RefCell;
use std::collections::hash_map::DefaultHasher;
use std::collections::{BTreeMap, HashSet};
use std::fmt::Debug;
use std::hash::Hasher;
use std::panic::{catch_unwind, AssertUnwindSafe};
use std::path::{Path, PathBuf};
use std::sync::Mutex;
use std::time::Instant;

use proptest::strategy::{BoxedStrategy, Strategy};
use proptest::test_runner::{Config, RngAlgorithm, TestCaseError, TestError, TestRng, TestRunner};
use serde::de::DeserializeOwned;
use serde::Serialize;
use serde_json::{json, Value};

pub const VERIF_ROOT: &str = "/verif";

#[derive(Clone, Copy, Debug, PartialEq, Eq)]
pub enum Tier {
    Quick,
    Thorough,
}

impl Tier {
    pub fn name(&self) -> &'static str {
        match self {
            Tier::Quick => "quick",
            Tier::Thorough => "thorough",
        }
    }
    /// pick a size by tier
    pub fn pick(&self, quick: u64, thorough: u64) -> u64 {
        match self {
            Tier::Quick => quick,
            Tier::Thorough => thorough,
        }
    }
}

#[derive(Clone, Debug)]
pub struct Ctx {
    pub property: String,
    pub tier: Tier,
    pub seed: u64,
    pub workers: usize,
    /// scale factor for case counts (VERIF_SCALE, default 1.0) -- used by sensitivity runs
    pub scale: f64,
}

impl Ctx {
    pub fn cases(&self, quick: u64, thorough: u64) -> u64 {
        let n = self.tier.pick(quick, thorough) as f64 * self.scale;
        (n.max(1.0)) as u64
    }
    pub fn work_dir(&self) -> PathBuf {
        let p = Path::new(VERIF_ROOT).join("work").join(&self.property);
        std::fs::create_dir_all(&p).ok();
        p
    }
}

// ---------------------------------------------------------------------------
// verdict of one case

#[derive(Clone, Debug, Default)]
pub struct V {
    pub fail: Option<String>,
    /// key of a known finding this case ran into (treated as not-a-failure, counted)
    pub known: Option<String>,
    pub nontrivial: bool,
    pub labels: Vec<&'static str>,
    /// the case was generated but its verdict intentionally not asserted
    pub unasserted: bool,
}

impl V {
    pub fn pass() -> Self {
        Self::default()
    }
    pub fn fail<S: Into<String>>(msg: S) -> Self {
        V {
            fail: Some(msg.into()),
            nontrivial: true,
            ..Default::default()
        }
    }
    pub fn known<S: Into<String>>(key: S) -> Self {
        V {
            known: Some(key.into()),
            nontrivial: true,
            ..Default::default()
        }
    }
    pub fn nt(mut self, nontrivial: bool) -> Self {
        self.nontrivial = nontrivial;
        self
    }
    pub fn label(mut self, l: &'static str) -> Self {
        self.labels.push(l);
        self
    }
    pub fn labels(mut self, l: &[&'static str]) -> Self {
        self.labels.extend_from_slice(l);
        self
    }
    pub fn label_if(mut self, cond: bool, l: &'static str) -> Self {
        if cond {
            self.labels.push(l);
        }
        self
    }
    pub fn is_fail(&self) -> bool {
        self.fail.is_some()
    }
}

// ---------------------------------------------------------------------------
// panic capture

thread_local! {
    static QUIET: RefCell<bool> = const { RefCell::new(false) };
    static LAST_PANIC: RefCell<Option<String>> = const { RefCell::new(None) };
}

pub fn install_panic_hook() {
    let default = std::panic::take_hook();
    std::panic::set_hook(Box::new(move |info| {
        let quiet = QUIET.with(|q| *q.borrow());
        let loc = info
            .location()
            .map(|l| format!("{}:{}", l.file(), l.line()))
            .unwrap_or_else(|| "?".into());
        let msg = if let Some(s) = info.payload().downcast_ref::<&str>() {
            s.to_string()
        } else if let Some(s) = info.payload().downcast_ref::<String>() {
            s.clone()
        } else {
            "<non-string panic>".to_string()
        };
        LAST_PANIC.with(|p| *p.borrow_mut() = Some(format!("panic at {loc}: {msg}")));
        if !quiet {
            default(info);
        }
    }));
}

/// Run `f`, turning a panic into Err(description with location).
pub fn guard<R>(f: impl FnOnce() -> R) -> Result<R, String> {
    QUIET.with(|q| *q.borrow_mut() = true);
    let r = catch_unwind(AssertUnwindSafe(f));
    QUIET.with(|q| *q.borrow_mut() = false);
    match r {
        Ok(v) => Ok(v),
        Err(_) => Err(LAST_PANIC
            .with(|p| p.borrow_mut().take())
            .unwrap_or_else(|| "panic (no info)".into())),
    }
}

// ---------------------------------------------------------------------------
// hashing / serialisation helpers

pub fn hash_bytes(b: &[u8]) -> u64 {
    let mut h = DefaultHasher::new(); // SipHash-1-3 with zero keys: deterministic
    h.write(b);
    h.finish()
}

pub fn hex(b: &[u8]) -> String {
    let mut s = String::with_capacity(b.len() * 2);
    for x in b {
        s.push_str(&format!("{:02x}", x));
    }
    s
}

pub fn unhex(s: &str) -> Vec<u8> {
    (0..s.len() / 2)
        .map(|i| u8::from_str_radix(&s[2 * i..2 * i + 2], 16).unwrap_or(0))
        .collect()
}

/// serde helper: Vec<u8> as hex string
pub mod hexbytes {
    use serde::{Deserialize, Deserializer, Serializer};
    pub fn serialize<S: Serializer>(b: &Vec<u8>, s: S) -> Result<S::Ok, S::Error> {
        s.serialize_str(&super::hex(b))
    }
    pub fn deserialize<'de, D: Deserializer<'de>>(d: D) -> Result<Vec<u8>, D::Error> {
        let s = String::deserialize(d)?;
        Ok(super::unhex(&s))
    }
}

/// serde helper: Vec<Vec<u8>> as list of hex strings
pub mod hexlines {
    use serde::{Deserialize, Deserializer, Serialize, Serializer};
    pub fn serialize<S: Serializer>(b: &Vec<Vec<u8>>, s: S) -> Result<S::Ok, S::Error> {
        b.iter().map(|x| super::hex(x)).collect::<Vec<_>>().serialize(s)
    }
    pub fn deserialize<'de, D: Deserializer<'de>>(d: D) -> Result<Vec<Vec<u8>>, D::Error> {
        let s = Vec::<String>::deserialize(d)?;
        Ok(s.iter().map(|x| super::unhex(x)).collect())
    }
}

pub fn lossy(b: &[u8]) -> String {
    String::from_utf8_lossy(b).to_string()
}

// ---------------------------------------------------------------------------
// part reports

#[derive(Debug, Default, Clone)]
pub struct Violation {
    pub part: String,
    pub message: String,
    pub replay: String,
}

#[derive(Debug, Default)]
pub struct PartReport {
    pub name: String,
    pub rule: String,
    pub evaluations: u64,
    pub unasserted: u64,
    pub nontrivial: HashSet<u64>,
    pub classes: BTreeMap<String, u64>,
    pub known_hits: BTreeMap<String, u64>,
    pub samples: Vec<Value>,
    pub violations: Vec<Violation>,
    pub exhaustive: bool,
    pub extra: BTreeMap<String, Value>,
}

#[derive(Default)]
struct WorkerStats {
    frozen: bool,
    evaluations: u64,
    unasserted: u64,
    nontrivial: HashSet<u64>,
    classes: BTreeMap<&'static str, u64>,
    known_hits: BTreeMap<String, u64>,
    samples: Vec<(String, Value)>,
    sample_labels: HashSet<String>,
}

impl WorkerStats {
    fn record<T: Serialize>(&mut self, case: &T, v: &V, part_salt: u64) {
        if self.frozen {
            return;
        }
        self.evaluations += 1;
        if v.unasserted {
            self.unasserted += 1;
        }
        for l in &v.labels {
            *self.classes.entry(l).or_insert(0) += 1;
        }
        if let Some(k) = &v.known {
            *self.known_hits.entry(k.clone()).or_insert(0) += 1;
        }
        if v.nontrivial {
            let bytes = serde_json::to_vec(case).unwrap_or_default();
            self.nontrivial.insert(hash_bytes(&bytes) ^ part_salt);
            // keep the first non-trivial sample per label set
            let key = v.labels.join("+");
            if self.samples.len() < 6 && !self.sample_labels.contains(&key) {
                self.sample_labels.insert(key.clone());
                if let Ok(val) = serde_json::from_slice::<Value>(&bytes) {
                    self.samples.push((key, val));
                }
            }
        }
        if v.fail.is_some() {
            self.frozen = true;
        }
    }
}

pub trait Part: Send + Sync {
    fn name(&self) -> &'static str;
    fn run(&self, ctx: &Ctx) -> PartReport;
    /// re-run the oracle on one serialised case
    fn replay(&self, case: &Value) -> Result<V, String>;
}

/// A property part driven by a proptest strategy.
pub struct PropPart<T> {
    pub name: &'static str,
    pub rule: &'static str,
    pub quick: u64,
    pub thorough: u64,
    /// maximum number of worker threads (0 = ctx.workers)
    pub max_workers: usize,
    pub strategy: Box<dyn Fn(&Ctx) -> BoxedStrategy<T> + Send + Sync>,
    pub check: Box<dyn Fn(&T) -> V + Send + Sync>,
}

fn seed_bytes(seed: u64, part: &str, worker: usize) -> [u8; 32] {
    let mut out = [0u8; 32];
    let h0 = hash_bytes(format!("{seed}/{part}/{worker}/a").as_bytes());
    let h1 = hash_bytes(format!("{seed}/{part}/{worker}/b").as_bytes());
    let h2 = hash_bytes(format!("{seed}/{part}/{worker}/c").as_bytes());
    let h3 = hash_bytes(format!("{seed}/{part}/{worker}/d").as_bytes());
    out[0..8].copy_from_slice(&h0.to_le_bytes());
    out[8..16].copy_from_slice(&h1.to_le_bytes());
    out[16..24].copy_from_slice(&h2.to_le_bytes());
    out[24..32].copy_from_slice(&h3.to_le_bytes());
    out
}

pub fn write_replay<T: Serialize>(property: &str, part: &str, case: &T, message: &str) -> String {
    let dir = Path::new(VERIF_ROOT).join("replays").join(property);
    std::fs::create_dir_all(&dir).ok();
    let body = json!({
        "property": property,
        "part": part,
        "message": message,
        "case": serde_json::to_value(case).unwrap_or(Value::Null),
    });
    let text = serde_json::to_string_pretty(&body).unwrap_or_default();
    let h = hash_bytes(serde_json::to_vec(&body["case"]).unwrap_or_default().as_slice());
    let path = dir.join(format!("{part}-{h:016x}.json"));
    std::fs::write(&path, text).ok();
    path.to_string_lossy().to_string()
}

impl<T> Part for PropPart<T>
where
    T: Debug + Clone + Serialize + DeserializeOwned + Send + 'static,
{
    fn name(&self) -> &'static str {
        self.name
    }

    fn run(&self, ctx: &Ctx) -> PartReport {
        let total = ctx.cases(self.quick, self.thorough);
        let workers = if self.max_workers == 0 {
            ctx.workers
        } else {
            self.max_workers.min(ctx.workers)
        }
        .max(1)
        .min(total as usize);
        let per = total / workers as u64;
        let rem = total % workers as u64;
        let salt = hash_bytes(self.name.as_bytes());
        let merged: Mutex<(WorkerStats, Vec<Violation>)> = Mutex::new(Default::default());
        std::thread::scope(|scope| {
            for w in 0..workers {
                let merged = &merged;
                let n = per + if (w as u64) < rem { 1 } else { 0 };
                std::thread::Builder::new()
                    .stack_size(64 << 20)
                    .spawn_scoped(scope, move || {
                        let strat = (self.strategy)(ctx);
                        let stats = RefCell::new(WorkerStats::default());
                        // proptest caps `cases` at u32
                        let mut left = n;
                        let mut violation = None;
                        let mut round = 0;
                        while left > 0 && violation.is_none() {
                            let chunk = left.min(1_000_000_000) as u32;
                            left -= chunk as u64;
                            let config = Config {
                                cases: chunk,
                                failure_persistence: None,
                                max_shrink_iters: 50_000,
                                max_global_rejects: 1_000_000,
                                ..Config::default()
                            };
                            let rng = TestRng::from_seed(
                                RngAlgorithm::ChaCha,
                                &seed_bytes(ctx.seed, self.name, w * 1000 + round),
                            );
                            round += 1;
                            let mut runner = TestRunner::new_with_rng(config, rng);
                            let result = runner.run(&strat, |case| {
                                let v = (self.check)(&case);
                                stats.borrow_mut().record(&case, &v, salt);
                                match v.fail {
                                    Some(m) => Err(TestCaseError::fail(m)),
                                    None => Ok(()),
                                }
                            });
                            match result {
                                Ok(()) => {}
                                Err(TestError::Fail(reason, case)) => {
                                    // re-evaluate the minimal case for the final message
                                    let v = (self.check)(&case);
                                    let message =
                                        v.fail.unwrap_or_else(|| reason.message().to_string());
                                    let replay =
                                        write_replay(&ctx.property, self.name, &case, &message);
                                    violation = Some(Violation {
                                        part: self.name.to_string(),
                                        message,
                                        replay,
                                    });
                                }
                                Err(TestError::Abort(reason)) => {
                                    eprintln!(
                                        "INCONCLUSIVE part={} generator aborted: {}",
                                        self.name,
                                        reason.message()
                                    );
                                    std::process::exit(2);
                                }
                            }
                        }
                        let st = stats.into_inner();
                        let mut m = merged.lock().unwrap();
                        m.0.evaluations += st.evaluations;
                        m.0.unasserted += st.unasserted;
                        m.0.nontrivial.extend(st.nontrivial);
                        for (k, v) in st.classes {
                            *m.0.classes.entry(k).or_insert(0) += v;
                        }
                        for (k, v) in st.known_hits {
                            *m.0.known_hits.entry(k).or_insert(0) += v;
                        }
                        for (k, s) in st.samples {
                            if m.0.samples.len() < 8 && !m.0.sample_labels.contains(&k) {
                                m.0.sample_labels.insert(k.clone());
                                m.0.samples.push((k, s));
                            }
                        }
                        if let Some(v) = violation {
                            m.1.push(v);
                        }
                    })
                    .expect("spawn worker");
            }
        });
        let (st, violations) = merged.into_inner().unwrap();
        // one violation per part is enough (workers may find the same root cause)
        let mut violations = violations;
        violations.sort_by(|a, b| a.replay.len().cmp(&b.replay.len()).then(a.replay.cmp(&b.replay)));
        PartReport {
            name: self.name.to_string(),
            rule: self.rule.to_string(),
            evaluations: st.evaluations,
            unasserted: st.unasserted,
            nontrivial: st.nontrivial,
            classes: st.classes.into_iter().map(|(k, v)| (k.to_string(), v)).collect(),
            known_hits: st.known_hits,
            samples: st
                .samples
                .into_iter()
                .map(|(k, s)| json!({"part": self.name, "labels": k, "case": s}))
                .collect(),
            violations,
            exhaustive: false,
            extra: BTreeMap::new(),
        }
    }

    fn replay(&self, case: &Value) -> Result<V, String> {
        let case: T = serde_json::from_value(case.clone()).map_err(|e| format!("decode case: {e}"))?;
        Ok((self.check)(&case))
    }
}

// ---------------------------------------------------------------------------
// known findings (read-only at run time)

#[derive(Clone, Debug, serde::Deserialize)]
pub struct KnownFinding {
    pub property: String,
    pub key: String,
    pub what: String,
    #[serde(default)]
    pub replay: Option<String>,
    #[serde(default)]
    pub status: Option<String>, // "open" (default) or "fixed"
    #[serde(default)]
    pub commit: Option<String>,
}

pub fn load_known_findings() -> Vec<KnownFinding> {
    let path = Path::new(VERIF_ROOT).join("known_findings.json");
    match std::fs::read_to_string(&path) {
        Ok(text) => {
            #[derive(serde::Deserialize)]
            struct File {
                findings: Vec<KnownFinding>,
            }
            match serde_json::from_str::<File>(&text) {
                Ok(f) => f.findings,
                Err(e) => {
                    eprintln!("INCONCLUSIVE cannot parse known_findings.json: {e}");
                    std::process::exit(2);
                }
            }
        }
        Err(_) => vec![],
    }
}

static OPEN_KEYS: std::sync::OnceLock<HashSet<String>> = std::sync::OnceLock::new();

/// load the open known-finding keys of the property under check (once, before any worker starts)
pub fn init_open_keys(property: &str) {
    let _ = OPEN_KEYS.set(open_keys(property));
}

pub fn is_open(key: &str) -> bool {
    OPEN_KEYS.get().map(|k| k.contains(key)).unwrap_or(false)
}

/// A failure whose root cause is identified by `key`: counted (not raised) if the committed
/// known_findings.json lists that key as open, a violation otherwise.
pub fn known_or_fail(key: &str, msg: String) -> V {
    if is_open(key) {
        V::known(key)
    } else {
        V::fail(format!("[{key}] {msg}"))
    }
}

/// keys of open (unfixed) known findings for a property
pub fn open_keys(property: &str) -> HashSet<String> {
    load_known_findings()
        .into_iter()
        .filter(|f| f.property == property && f.status.as_deref() != Some("fixed"))
        .map(|f| f.key)
        .collect()
}

// ---------------------------------------------------------------------------
// property = list of parts + metadata

pub struct Property {
    pub id: &'static str,
    pub assumptions: Vec<&'static str>,
    pub parts: Vec<Box<dyn Part>>,
}

/// cargo-fuzz targets (harness/fuzz) that extend the thorough tier of a property with a
/// coverage-guided byte-level campaign; (target, runs)
pub fn fuzz_targets_of(property: &str) -> Vec<(&'static str, u64)> {
    // measured on this machine (single libFuzzer process, sancov-instrumented regex compilation
    // dominates): markdown ~5800 exec/s, cram ~500/s, escape ~365/s; the targets `expectation`
    // (125/s), `diff` (30/s) and `render` (18/s) exist in harness/fuzz for manual use but are not
    // part of a registered command -- the proptest engine covers those oracles 100x faster
    match property {
        "C06" => vec![("markdown", 50_000)],
        "C07" => vec![("cram", 30_000)],
        "C10" => vec![("update", 40_000)],
        "C11" => vec![("escape", 60_000)],
        _ => vec![],
    }
}

pub struct FuzzOutcome {
    pub target: String,
    pub runs: u64,
    pub crash: Option<(String, String)>,
    pub skipped: Option<String>,
}

/// run one libFuzzer campaign with fixed work (-runs) and a fresh corpus
pub fn run_fuzz(property: &str, target: &str, runs: u64, seed: u64) -> FuzzOutcome {
    let mut out = FuzzOutcome { target: target.to_string(), runs: 0, crash: None, skipped: None };
    let corpus = Path::new(VERIF_ROOT).join("work").join(property).join(format!("fuzz-corpus-{target}"));
    let _ = std::fs::remove_dir_all(&corpus);
    if std::fs::create_dir_all(&corpus).is_err() {
        out.skipped = Some("cannot create corpus directory".into());
        return out;
    }
    // a few small valid inputs from the repository next to the empty input
    let seeds: Vec<PathBuf> = match target {
        "markdown" | "update" => list_ext(Path::new("/repo/selftest/cases"), "md", 12),
        "cram" => list_ext(Path::new("/repo/selftest/cases"), "t", 12),
        _ => vec![],
    };
    for (i, f) in seeds.iter().enumerate() {
        if let Ok(b) = std::fs::read(f) {
            if b.len() <= 4096 {
                let _ = std::fs::write(corpus.join(format!("seed{i}")), b);
            }
        }
    }
    let _ = std::fs::write(corpus.join("empty"), b"");
    let art_dir = Path::new(VERIF_ROOT).join("replays").join(property);
    let _ = std::fs::create_dir_all(&art_dir);
    let prefix = format!("{}/fuzz-{target}-", art_dir.display());
    let mut cmd = std::process::Command::new("cargo");
    cmd.current_dir(Path::new(VERIF_ROOT).join("harness"))
        .args(["+nightly", "fuzz", "run", "-O", "--fuzz-dir", "fuzz", target])
        .arg(&corpus)
        .arg("--")
        .arg(format!("-runs={runs}"))
        .arg(format!("-seed={}", if seed == 0 { 1 } else { seed % 4_000_000_000 }))
        .args(["-max_len=1024", "-len_control=0", "-print_final_stats=1", "-verbosity=0"])
        .arg(format!("-artifact_prefix={prefix}"))
        .env("CARGO_NET_OFFLINE", "true")
        .env("CARGO_TARGET_DIR", "/verif/target/fuzz")
        .env("RUST_BACKTRACE", "0");
    let result = cmd.output();
    let _ = std::fs::remove_dir_all(&corpus);
    let output = match result {
        Ok(o) => o,
        Err(e) => {
            out.skipped = Some(format!("cargo fuzz could not be started: {e}"));
            return out;
        }
    };
    let stderr = String::from_utf8_lossy(&output.stderr).to_string();
    for line in stderr.lines() {
        if let Some(n) = line.strip_prefix("stat::number_of_executed_units:") {
            out.runs = n.trim().parse().unwrap_or(0);
        }
    }
    if !output.status.success() {
        // a crash leaves an artifact; anything else (build failure, toolchain missing) is a skip
        let artifact = stderr
            .lines()
            .filter_map(|l| l.split("Test unit written to ").nth(1))
            .next()
            .map(|p| p.trim().to_string());
        match artifact {
            Some(a) => {
                let msg = stderr
                    .lines()
                    .find(|l| l.contains("ORACLE FAILURE") || l.contains("panicked at"))
                    .unwrap_or("crash")
                    .to_string();
                out.crash = Some((a, msg));
            }
            None => {
                out.skipped = Some(format!(
                    "fuzz stage did not run: {}",
                    stderr.lines().rev().find(|l| !l.trim().is_empty()).unwrap_or("")
                ));
            }
        }
    }
    out
}

fn list_ext(dir: &Path, ext: &str, max: usize) -> Vec<PathBuf> {
    let mut v: Vec<PathBuf> = std::fs::read_dir(dir)
        .map(|rd| {
            rd.filter_map(|e| e.ok())
                .map(|e| e.path())
                .filter(|p| p.extension().map(|e| e == ext).unwrap_or(false))
                .collect()
        })
        .unwrap_or_default();
    v.sort();
    v.truncate(max);
    v
}

pub struct RunSummary {
    pub violations: Vec<Violation>,
}

fn list_json(dir: &Path) -> Vec<PathBuf> {
    let mut v: Vec<PathBuf> = std::fs::read_dir(dir)
        .map(|rd| {
            rd.filter_map(|e| e.ok())
                .map(|e| e.path())
                .filter(|p| {
                    p.extension().map(|e| e == "json").unwrap_or(false)
                        || p.file_name().and_then(|n| n.to_str()).map(|n| n.starts_with("fuzz-")).unwrap_or(false)
                })
                .collect()
        })
        .unwrap_or_default();
    v.sort();
    v
}

pub fn replay_file(prop: &Property, path: &Path) -> Result<(String, V), String> {
    // artifacts of the fuzz stage are raw inputs named fuzz-<target>-<kind>-<hash>
    if let Some(name) = path.file_name().and_then(|n| n.to_str()) {
        if let Some(rest) = name.strip_prefix("fuzz-") {
            let target = rest.split('-').next().unwrap_or("");
            let data = std::fs::read(path).map_err(|e| format!("read {path:?}: {e}"))?;
            let r = crate::fuzz::run_target(target, &data)?;
            let _ = prop;
            return Ok((format!("fuzz/{target}"), match r {
                Some(m) => V::fail(m),
                None => V::pass(),
            }));
        }
    }
    let text = std::fs::read_to_string(path).map_err(|e| format!("read {path:?}: {e}"))?;
    let body: Value = serde_json::from_str(&text).map_err(|e| format!("parse {path:?}: {e}"))?;
    let part = body["part"].as_str().unwrap_or("").to_string();
    let p = prop
        .parts
        .iter()
        .find(|p| p.name() == part)
        .ok_or_else(|| format!("unknown part `{part}` in {path:?}"))?;
    let v = p.replay(&body["case"])?;
    Ok((part, v))
}

pub fn run_property(prop: &Property, ctx: &Ctx) -> i32 {
    let start = Instant::now();
    let mut violations: Vec<Violation> = vec![];
    let mut known_lines: Vec<String> = vec![];
    let findings: Vec<KnownFinding> = load_known_findings()
        .into_iter()
        .filter(|f| f.property == prop.id)
        .collect();

    // 1. regression tier: committed minimal cases, bypassing proptest
    let mut regression_count = 0u64;
    let reg_dir = Path::new(VERIF_ROOT).join("regressions").join(prop.id);
    let known_replays: BTreeMap<String, &KnownFinding> = findings
        .iter()
        .filter(|f| f.status.as_deref() != Some("fixed"))
        .filter_map(|f| f.replay.as_ref().map(|r| (r.clone(), f)))
        .collect();
    for path in list_json(&reg_dir) {
        let rel = path
            .strip_prefix(VERIF_ROOT)
            .unwrap_or(&path)
            .to_string_lossy()
            .trim_start_matches('/')
            .to_string();
        if known_replays.contains_key(&rel) {
            continue; // handled below
        }
        regression_count += 1;
        match replay_file(prop, &path) {
            Ok((part, v)) => {
                if let Some(m) = v.fail {
                    violations.push(Violation {
                        part: format!("regression/{part}"),
                        message: m,
                        replay: path.to_string_lossy().to_string(),
                    });
                }
            }
            Err(e) => {
                eprintln!("INCONCLUSIVE regression file unusable: {e}");
                return 2;
            }
        }
    }

    // 2. open known findings: re-run their stored replay in strict mode
    for f in findings.iter().filter(|f| f.status.as_deref() != Some("fixed")) {
        if let Some(r) = &f.replay {
            let path = Path::new(VERIF_ROOT).join(r);
            let res = replay_file(prop, &path);
            match res {
                Ok((_, v)) => {
                    if v.fail.is_some() || v.known.is_some() {
                        known_lines.push(format!(
                            "KNOWN-FINDING: property={} {} [{}]",
                            prop.id, f.what, f.key
                        ));
                    } else {
                        eprintln!(
                            "note: known finding {} no longer reproduces on this tree",
                            f.key
                        );
                    }
                }
                Err(e) => {
                    eprintln!("INCONCLUSIVE known-finding replay unusable: {e}");
                    return 2;
                }
            }
        } else {
            known_lines.push(format!(
                "KNOWN-FINDING: property={} {} [{}]",
                prop.id, f.what, f.key
            ));
        }
    }

    // 3. generated search
    let mut reports = vec![];
    for part in &prop.parts {
        let t = Instant::now();
        let rep = part.run(ctx);
        eprintln!(
            "[{}] part {:<22} evaluations={:<9} nontrivial={:<9} violations={} ({:.1}s)",
            prop.id,
            rep.name,
            rep.evaluations,
            rep.nontrivial.len(),
            rep.violations.len(),
            t.elapsed().as_secs_f64()
        );
        reports.push(rep);
    }

    // 4. thorough tier: coverage-guided byte-level campaigns (libFuzzer via cargo-fuzz)
    let mut fuzz_report = vec![];
    if ctx.tier == Tier::Thorough && std::env::var("VERIF_NO_FUZZ").is_err() {
        for (target, runs) in fuzz_targets_of(prop.id) {
            let t = Instant::now();
            let runs = ((runs as f64) * ctx.scale).max(1000.0) as u64;
            let f = run_fuzz(prop.id, target, runs, ctx.seed);
            eprintln!(
                "[{}] fuzz {:<20} runs={:<9} crash={} {} ({:.1}s)",
                prop.id,
                f.target,
                f.runs,
                f.crash.is_some(),
                f.skipped.clone().unwrap_or_default(),
                t.elapsed().as_secs_f64()
            );
            if let Some((artifact, message)) = &f.crash {
                violations.push(Violation {
                    part: format!("fuzz/{target}"),
                    message: message.clone(),
                    replay: artifact.clone(),
                });
            }
            fuzz_report.push(json!({"target": f.target, "runs": f.runs, "crashed": f.crash.is_some(), "skipped": f.skipped}));
        }
    }

    let mut evaluations = regression_count;
    let mut distinct = 0u64;
    let mut unasserted = 0u64;
    let mut classes = BTreeMap::new();
    let mut known_hits: BTreeMap<String, u64> = BTreeMap::new();
    let mut samples = vec![];
    let mut rules = vec![];
    let mut exhaustive_parts = vec![];
    let mut extra = BTreeMap::new();
    for rep in &reports {
        evaluations += rep.evaluations;
        distinct += rep.nontrivial.len() as u64;
        unasserted += rep.unasserted;
        for (k, v) in &rep.classes {
            classes.insert(format!("{}/{}", rep.name, k), *v);
        }
        for (k, v) in &rep.known_hits {
            *known_hits.entry(k.clone()).or_insert(0) += v;
        }
        for s in rep.samples.iter().take(4) {
            samples.push(s.clone());
        }
        rules.push(format!("[{}] {}", rep.name, rep.rule));
        if rep.exhaustive {
            exhaustive_parts.push(rep.name.clone());
        }
        for (k, v) in &rep.extra {
            extra.insert(format!("{}/{}", rep.name, k), v.clone());
        }
        // report only the first (smallest) violation of a part
        if let Some(v) = rep.violations.first() {
            violations.push(v.clone());
        }
    }

    // known-finding hits whose key is not listed as open are violations by construction of the
    // checks (checks only return V::known for keys they found in the file), nothing to do here.

    for l in &known_lines {
        println!("{l}");
    }
    for v in &violations {
        println!("VIOLATION property={} replay={}", prop.id, v.replay);
        println!("  part={} {}", v.part, v.message.replace('\n', "\n    "));
    }

    let wall = start.elapsed().as_secs_f64();
    let mut coverage = json!({
        "evaluations": evaluations,
        "distinct_nontrivial": distinct,
        "rule": rules.join(" || "),
        "samples": samples,
        "classes": classes,
        "known_findings_hit": known_hits,
        "regression_cases_replayed": regression_count,
        "unasserted": unasserted,
        "exhaustive_parts": exhaustive_parts,
        "exhaustive": false,
    });
    for (k, v) in extra {
        coverage[k] = v;
    }
    if !fuzz_report.is_empty() {
        coverage["fuzz_runs"] = json!(fuzz_report);
    }
    let evidence = json!({
        "property_id": prop.id,
        "tier": ctx.tier.name(),
        "seed": ctx.seed,
        "level": "exploration",
        "coverage": coverage,
        "assumptions": prop.assumptions,
        "wall_s": (wall * 100.0).round() / 100.0,
        "violations": violations.len(),
    });
    let ev_dir = Path::new(VERIF_ROOT).join("evidence");
    std::fs::create_dir_all(&ev_dir).ok();
    let ev_path = ev_dir.join(format!("{}.json", prop.id));
    if let Err(e) = std::fs::write(&ev_path, serde_json::to_string_pretty(&evidence).unwrap()) {
        eprintln!("INCONCLUSIVE cannot write evidence: {e}");
        return 2;
    }
    eprintln!(
        "[{}] {} tier: evaluations={} distinct_nontrivial={} violations={} known={} wall={:.1}s",
        prop.id,
        ctx.tier.name(),
        evaluations,
        distinct,
        violations.len(),
        known_lines.len(),
        wall
    );
    if violations.is_empty() {
        0
    } else {
        1
    }
}

// ---------------------------------------------------------------------------
// small generator helpers

/// Map a u16 "index seed" monotonically into 0..len (shrinks towards 0).
pub fn pick_idx(seed: u16, len: usize) -> usize {
    if len == 0 {
        0
    } else {
        ((seed as usize) * len) >> 16
    }
}

pub fn boxed<T: Debug, S: Strategy<Value = T> + 'static>(s: S) -> BoxedStrategy<T> {
    s.boxed()
}
