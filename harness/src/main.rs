//! `verif run <ID> <quick|thorough>` / `verif replay <ID> <file>`
//!
//! exit 0: property held on everything explored
//! exit 1: violation (a line `VIOLATION property=<id> replay=<path>` is printed)
//! exit 2: inconclusive (hang, watchdog, unusable input) -- never a violation

#![allow(dead_code)]
use scrut_verif::*;

use std::path::Path;

use scrut_verif::engine::*;

fn usage() -> ! {
    eprintln!("usage: verif run <ID> <quick|thorough> | verif replay <ID> <file>");
    std::process::exit(2);
}

fn main() {
    install_panic_hook();
    let args: Vec<String> = std::env::args().collect();
    if args.len() == 3 && args[1] == "exec-case" {
        std::process::exit(execchild::child_main(&args[2]));
    }
    if args.len() < 4 {
        usage();
    }
    let id = args[2].as_str();
    let Some(prop) = property(id) else {
        eprintln!("unknown property {id}");
        std::process::exit(2);
    };
    init_open_keys(prop.id);
    match args[1].as_str() {
        "run" => {
            let tier = match args[3].as_str() {
                "quick" => Tier::Quick,
                "thorough" => Tier::Thorough,
                _ => usage(),
            };
            let seed = std::env::var("VERIF_SEED")
                .ok()
                .and_then(|s| s.trim().parse::<i64>().ok())
                .map(|s| s as u64)
                .unwrap_or(1);
            let workers = std::env::var("VERIF_WORKERS")
                .ok()
                .and_then(|s| s.parse().ok())
                .unwrap_or_else(|| {
                    std::thread::available_parallelism()
                        .map(|n| n.get())
                        .unwrap_or(4)
                });
            let scale = std::env::var("VERIF_SCALE")
                .ok()
                .and_then(|s| s.parse().ok())
                .unwrap_or(1.0);
            let ctx = Ctx {
                property: prop.id.to_string(),
                tier,
                seed,
                workers,
                scale,
            };
            // watchdog: a run that exceeds its budget is inconclusive, never a violation
            let budget = std::env::var("VERIF_WATCHDOG_S")
                .ok()
                .and_then(|s| s.parse().ok())
                .unwrap_or(match tier {
                    Tier::Quick => 1500u64,
                    Tier::Thorough => 6 * 3600,
                });
            std::thread::spawn(move || {
                std::thread::sleep(std::time::Duration::from_secs(budget));
                eprintln!("INCONCLUSIVE watchdog: run exceeded {budget}s");
                std::process::exit(2);
            });
            let code = run_property(&prop, &ctx);
            std::process::exit(code);
        }
        "replay" => {
            let path = Path::new(&args[3]);
            match replay_file(&prop, path) {
                Ok((part, v)) => {
                    if let Some(m) = v.fail {
                        println!("VIOLATION property={} replay={}", prop.id, path.display());
                        println!("  part={part} {m}");
                        std::process::exit(1);
                    } else if let Some(k) = v.known {
                        println!("KNOWN-FINDING: property={} [{k}] reproduces", prop.id);
                        std::process::exit(0);
                    } else {
                        println!("replay passes: property={} part={part}", prop.id);
                        std::process::exit(0);
                    }
                }
                Err(e) => {
                    eprintln!("INCONCLUSIVE {e}");
                    std::process::exit(2);
                }
            }
        }
        _ => usage(),
    }
}
