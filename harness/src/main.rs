//! `verif run <ID> <quick|thorough>` / `verif replay <ID> <file>`
//!
//! exit 0: property held on everything explored
//! exit 1: violation (a line `VIOLATION property=<id> replay=<path>` is printed)
//! exit 2: inconclusive (hang, watchdog, unusable input) -- never a violation

#![allow(dead_code)]
mod engine;
mod matcher;
mod c04;
mod c05;
mod c06;
mod c07;
mod docgen;
mod c08;
mod c09;
mod c10;
mod proc;
mod c11;
mod c12;
mod c13;
mod c14;
mod c15;
mod execchild;
mod c16;
mod c17;
mod c18;
mod c19;
mod c20;
mod cfggen;
mod unicode_c;

use std::path::Path;

use engine::*;

fn property(id: &str) -> Option<Property> {
    Some(match id {
        "C01" | "C02" | "C03" => matcher::property(id),
        "C04" => c04::property(),
        "C05" => c05::property(),
        "C06" => c06::property(),
        "C07" => c07::property(),
        "C08" => c08::property(),
        "C09" => c09::property(),
        "C10" => c10::property(),
        "C11" => c11::property(),
        "C12" => c12::property(),
        "C13" => c13::property(),
        "C14" => c14::property(),
        "C15" => c15::property(),
        "C16" => c16::property(),
        "C17" => c17::property(),
        "C18" => c18::property(),
        "C19" => c19::property(),
        "C20" => c20::property(),
        _ => return None,
    })
}

fn usage() -> ! {
    eprintln!("usage: verif run <ID> <quick|thorough> | verif replay <ID> <file>");
    std::process::exit(2);
}

fn main() {
    install_panic_hook();
    let args: Vec<String> = std::env::args().collect();
    if args.len() == 3 && args[1] == "exec-case" {
        std::process::exit(execchild::child_main(&args[2]));
    }
    if args.len() < 4 {
        usage();
    }
    let id = args[2].as_str();
    let Some(prop) = property(id) else {
        eprintln!("unknown property {id}");
        std::process::exit(2);
    };
    init_open_keys(prop.id);
    match args[1].as_str() {
        "run" => {
            let tier = match args[3].as_str() {
                "quick" => Tier::Quick,
                "thorough" => Tier::Thorough,
                _ => usage(),
            };
            let seed = std::env::var("VERIF_SEED")
                .ok()
                .and_then(|s| s.trim().parse::<i64>().ok())
                .map(|s| s as u64)
                .unwrap_or(1);
            let workers = std::env::var("VERIF_WORKERS")
                .ok()
                .and_then(|s| s.parse().ok())
                .unwrap_or_else(|| {
                    std::thread::available_parallelism()
                        .map(|n| n.get())
                        .unwrap_or(4)
                });
            let scale = std::env::var("VERIF_SCALE")
                .ok()
                .and_then(|s| s.parse().ok())
                .unwrap_or(1.0);
            let ctx = Ctx {
                property: prop.id.to_string(),
                tier,
                seed,
                workers,
                scale,
            };
            // watchdog: a run that exceeds its budget is inconclusive, never a violation
            let budget = std::env::var("VERIF_WATCHDOG_S")
                .ok()
                .and_then(|s| s.parse().ok())
                .unwrap_or(match tier {
                    Tier::Quick => 1500u64,
                    Tier::Thorough => 6 * 3600,
                });
            std::thread::spawn(move || {
                std::thread::sleep(std::time::Duration::from_secs(budget));
                eprintln!("INCONCLUSIVE watchdog: run exceeded {budget}s");
                std::process::exit(2);
            });
            let code = run_property(&prop, &ctx);
            std::process::exit(code);
        }
        "replay" => {
            let path = Path::new(&args[3]);
            match replay_file(&prop, path) {
                Ok((part, v)) => {
                    if let Some(m) = v.fail {
                        println!("VIOLATION property={} replay={}", prop.id, path.display());
                        println!("  part={part} {m}");
                        std::process::exit(1);
                    } else if let Some(k) = v.known {
                        println!("KNOWN-FINDING: property={} [{k}] reproduces", prop.id);
                        std::process::exit(0);
                    } else {
                        println!("replay passes: property={} part={part}", prop.id);
                        std::process::exit(0);
                    }
                }
                Err(e) => {
                    eprintln!("INCONCLUSIVE {e}");
                    std::process::exit(2);
                }
            }
        }
        _ => usage(),
    }
}
