//! C15: the skip exit code skips the whole document -- and nothing else does.

use proptest::collection::vec;
use proptest::prelude::*;
use serde::{Deserialize, Serialize};

use crate::engine::*;
use crate::proc::*;

#[derive(Clone, Debug, Serialize, Deserialize)]
pub struct T15 {
    /// exit code of the command
    pub exit: u8,
    /// expected code written as `[n]` (None = no line)
    pub expected: Option<u8>,
    /// per-test skip code (Markdown only)
    pub skip_code: Option<u8>,
    /// one line of output that is expected (true) or mis-expected (false)
    pub output_ok: bool,
}

#[derive(Clone, Debug, Serialize, Deserialize)]
pub struct D15 {
    pub cram: bool,
    /// document level `defaults.skip_document_code` (Markdown only)
    pub doc_skip: Option<u8>,
    pub tests: Vec<T15>,
}

#[derive(Clone, Debug, Serialize, Deserialize)]
pub struct Case15 {
    pub docs: Vec<D15>,
    /// run with `--cram-compat`: Markdown documents execute in the single-script (Cram) mode,
    /// which is the only way a custom skip code meets that executor
    #[serde(default)]
    pub cram_compat: bool,
}

fn code_pool() -> BoxedStrategy<u8> {
    prop_oneof![3 => Just(0u8), 3 => Just(80u8), 2 => Just(7u8), 2 => Just(9u8), 1 => Just(1u8), 1 => Just(81u8)].boxed()
}

fn case_strategy() -> BoxedStrategy<Case15> {
    let test = (
        code_pool(),
        proptest::option::of(code_pool()),
        proptest::option::weighted(0.3, prop_oneof![Just(7u8), Just(9u8), Just(80u8)]),
        proptest::bool::weighted(0.85),
        proptest::bool::weighted(0.6),
    )
        .prop_map(|(exit, expected, skip_code, output_ok, align)| T15 {
            exit,
            expected: if align { if exit == 0 { None } else { Some(exit) } } else { expected },
            skip_code,
            output_ok,
        });
    let doc = (proptest::bool::weighted(0.3), proptest::option::weighted(0.4, prop_oneof![Just(7u8), Just(9u8)]), vec(test, 1..5))
        .prop_map(|(cram, doc_skip, mut tests)| {
            if cram {
                for t in tests.iter_mut() {
                    t.skip_code = None;
                }
            }
            D15 {
                cram,
                doc_skip: if cram { None } else { doc_skip },
                tests,
            }
        });
    (vec(doc, 1..4), proptest::bool::weighted(0.3))
        .prop_map(|(mut docs, cram_compat)| {
            if cram_compat {
                // the single-script executor wants one skip code per document: the per-test
                // setting of the first test (if any) is written on every test
                for d in docs.iter_mut() {
                    let code = d.tests[0].skip_code;
                    for t in d.tests.iter_mut() {
                        t.skip_code = if d.cram { None } else { code };
                    }
                }
            }
            Case15 { docs, cram_compat }
        })
        .boxed()
}

fn effective_skip(d: &D15, t: &T15) -> u8 {
    t.skip_code.or(d.doc_skip).unwrap_or(80)
}

fn check_case(c: &Case15) -> V {
    let dir = match CaseDir::new("C15") {
        Ok(d) => d,
        Err(e) => inconclusive(&format!("scratch: {e}")),
    };
    let mut paths = vec![];
    let mut expected: Vec<Vec<&'static str>> = vec![];
    let mut texts = vec![];
    for (di, d) in c.docs.iter().enumerate() {
        let mut text = String::new();
        if d.cram {
            for (ti, t) in d.tests.iter().enumerate() {
                text.push_str(&format!("test {ti}\n  $ echo out{ti}; (exit {})\n", t.exit));
                text.push_str(&format!("  {}\n", if t.output_ok { format!("out{ti}") } else { "something else".into() }));
                if let Some(e) = t.expected {
                    text.push_str(&format!("  [{e}]\n"));
                }
                text.push('\n');
            }
        } else {
            if let Some(s) = d.doc_skip {
                text.push_str(&format!("---\ndefaults:\n  skip_document_code: {s}\n---\n\n"));
            }
            for (ti, t) in d.tests.iter().enumerate() {
                let cfg = t.skip_code.map(|s| format!(" {{skip_document_code: {s}}}")).unwrap_or_default();
                text.push_str(&format!("# test {ti}\n\n```scrut{cfg}\n$ echo out{ti}; (exit {})\n", t.exit));
                text.push_str(&format!("{}\n", if t.output_ok { format!("out{ti}") } else { "something else".into() }));
                if let Some(e) = t.expected {
                    text.push_str(&format!("[{e}]\n"));
                }
                text.push_str("```\n\n");
            }
        }
        let p = dir.path().join(format!("doc{di}.{}", if d.cram { "t" } else { "md" }));
        std::fs::write(&p, &text).ok();
        paths.push(p.to_string_lossy().to_string());
        texts.push(text);
        // model
        let skipping = d.tests.iter().any(|t| t.exit == effective_skip(d, t));
        expected.push(
            d.tests
                .iter()
                .map(|t| {
                    if skipping {
                        "skipped"
                    } else if t.exit != t.expected.unwrap_or(0) {
                        "invalid_exit_code"
                    } else if t.output_ok {
                        "success"
                    } else {
                        "malformed_output"
                    }
                })
                .collect(),
        );
    }
    let mut args = vec!["test".to_string(), "-r".into(), "json".into(), "--no-color".into()];
    if c.cram_compat {
        args.push("--cram-compat".into());
    }
    args.extend(paths.iter().cloned());
    let argv: Vec<&str> = args.iter().map(|s| s.as_str()).collect();
    let run = match run_scrut(&dir, &argv, 120) {
        Ok(r) => r,
        Err(e) => inconclusive(&format!("scrut test: {e}")),
    };
    let flat: Vec<&str> = expected.iter().flatten().copied().collect();
    let any_skip_doc = expected.iter().any(|d| d.first() == Some(&"skipped"));
    let custom = c.docs.iter().any(|d| d.doc_skip.is_some() || d.tests.iter().any(|t| t.skip_code.is_some()));
    let skip_not_first = c.docs.iter().any(|d| {
        d.tests.iter().position(|t| t.exit == effective_skip(d, t)).map(|p| p > 0).unwrap_or(false)
    });
    let fail_in_skipped = c.docs.iter().zip(expected.iter()).any(|(d, e)| {
        e.first() == Some(&"skipped") && d.tests.iter().any(|t| t.exit != t.expected.unwrap_or(0) || !t.output_ok)
    });
    let exits_80_unskipped = c.docs.iter().any(|d| d.tests.iter().any(|t| t.exit == 80 && effective_skip(d, t) != 80));
    let v = V::pass()
        .nt(custom || skip_not_first || fail_in_skipped)
        .label_if(any_skip_doc, "skipped_document")
        .label_if(custom, "custom_skip_code")
        .label_if(skip_not_first, "skipping_test_not_first")
        .label_if(fail_in_skipped, "failing_tests_in_skipped_document")
        .label_if(exits_80_unskipped, "exit_80_with_custom_code_in_force")
        .label_if(c.docs.iter().any(|d| d.cram), "cram")
        .label_if(c.cram_compat && c.docs.iter().any(|d| !d.cram), "markdown_in_cram_compat_mode")
        .label_if(c.cram_compat && c.docs.iter().any(|d| !d.cram && d.tests.iter().any(|t| effective_skip(d, t) != 80)), "custom_skip_code_in_single_script_mode");
    let docs_dump = || texts.iter().enumerate().map(|(i, t)| format!("--- doc{i}:\n{t}")).collect::<Vec<_>>().join("\n");
    let kinds = match json_result_kinds(&run.stdout) {
        Ok(k) => k,
        Err(e) => {
            return V::fail(format!(
                "no JSON report (exit {:?}): {e}\nstderr: {}\n{}",
                run.code,
                truncate(&run.stderr, 500),
                docs_dump()
            ))
        }
    };
    if kinds != flat {
        return V::fail(format!(
            "result kinds {:?}, the skip-code model says {:?} (exit {:?})\n{}",
            kinds,
            flat,
            run.code,
            docs_dump()
        ));
    }
    let should_fail = flat.iter().any(|k| *k == "invalid_exit_code" || *k == "malformed_output");
    let want = if should_fail { 50 } else { 0 };
    if run.code != Some(want) {
        return V::fail(format!(
            "exit status {:?}, expected {want} (kinds {:?})\n{}",
            run.code,
            kinds,
            docs_dump()
        ));
    }
    v
}

pub fn property() -> Property {
    Property {
        id: "C15",
        assumptions: vec![
            "Cram documents only use the default skip code 80 (the format has no configuration); custom codes reach the single-script executor through Markdown documents run with --cram-compat (one code per document there)",
            "timeouts are not generated here (C14 covers 'skipped after a timed-out test case')",
        ],
        parts: vec![Box::new(PropPart::<Case15> {
            name: "e2e",
            rule: "1..3 documents (Markdown with optional document-level and per-test skip_document_code, Cram; 30% of the runs with --cram-compat) x 1..4 tests; commands exit with codes from {0,1,7,9,80,81}; expected code aligned or not; skipping test at any position with or without a matching [code] line; `scrut test -r json` result kinds and exit status vs. model. Non-trivial: custom code, skipping test not first, or failing tests in a skipped document",
            quick: 1_000,
            thorough: 10_000,
            max_workers: 12,
            strategy: Box::new(|_| case_strategy()),
            check: Box::new(check_case),
        })],
    }
}
