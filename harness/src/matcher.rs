//! C01 / C02 / C03: the greedy line matcher (`DiffTool::diff`) against the reference
//! acceptor R-lang, the determinism predicate R-det and the conservation invariant.

use std::cell::RefCell;
use std::collections::BTreeMap;

use proptest::collection::vec;
use proptest::prelude::*;
use scrut::diff::{Diff, DiffLine, DiffTool};
use scrut::expectation::{Expectation, ExpectationMaker};
use scrut::output::{ExitStatus, Output};
use scrut::rules::registry::RuleRegistry;
use scrut::rules::rule::Rule;
use scrut::testcase::TestCase;
use serde::{Deserialize, Serialize};
use serde_json::json;

use crate::engine::*;

// ---------------------------------------------------------------------------
// abstract match matrices injected through the public Rule trait

#[derive(Clone, Debug)]
pub struct MatrixRule(pub u32);

fn line_index(line: &[u8]) -> Option<usize> {
    if line.first() != Some(&b'L') {
        return None;
    }
    let mut n = 0usize;
    let mut any = false;
    for b in &line[1..] {
        if b.is_ascii_digit() {
            n = n * 10 + (*b - b'0') as usize;
            any = true;
        } else {
            break;
        }
    }
    if any {
        Some(n)
    } else {
        None
    }
}

impl Rule for MatrixRule {
    fn kind(&self) -> &'static str {
        "equal"
    }
    fn matches(&self, line: &[u8]) -> bool {
        match line_index(line) {
            Some(i) if i < 32 => (self.0 >> i) & 1 == 1,
            _ => false,
        }
    }
    fn unmake(&self) -> (String, Vec<u8>) {
        ("equal".into(), format!("m{:x}", self.0).into_bytes())
    }
}

thread_local! {
    static TEMPLATE: RefCell<Option<Expectation>> = const { RefCell::new(None) };
    static MAKER: RefCell<Option<ExpectationMaker>> = const { RefCell::new(None) };
    static CRAM_MAKER: RefCell<Option<ExpectationMaker>> = const { RefCell::new(None) };
}

pub fn with_maker<R>(f: impl FnOnce(&ExpectationMaker) -> R) -> R {
    MAKER.with(|m| {
        let mut m = m.borrow_mut();
        if m.is_none() {
            *m = Some(ExpectationMaker::new(RuleRegistry::default()));
        }
        f(m.as_ref().unwrap())
    })
}

pub fn with_cram_maker<R>(f: impl FnOnce(&ExpectationMaker) -> R) -> R {
    use scrut::rules::glob_cram::CramGlobRule;
    use scrut::rules::rule::RuleMaker;
    CRAM_MAKER.with(|m| {
        let mut m = m.borrow_mut();
        if m.is_none() {
            let mut registry = RuleRegistry::default();
            registry.register(CramGlobRule::make, &["glob", "gl"]);
            *m = Some(ExpectationMaker::new(registry));
        }
        f(m.as_ref().unwrap())
    })
}

pub fn matrix_expectation(bits: u32, quant: u8) -> Expectation {
    let mut e = TEMPLATE.with(|t| {
        let mut t = t.borrow_mut();
        if t.is_none() {
            *t = Some(with_maker(|m| m.parse("x").expect("template expectation")));
        }
        t.as_ref().unwrap().clone()
    });
    e.rule = Box::new(MatrixRule(bits));
    e.optional = quant == 1 || quant == 2;
    e.multiline = quant == 2 || quant == 3;
    e
}

/// quantifier codes: 0 = exactly one, 1 = `?`, 2 = `*`, 3 = `+`
pub fn quant_str(q: u8) -> &'static str {
    match q {
        0 => "",
        1 => "?",
        2 => "*",
        _ => "+",
    }
}
pub fn q_optional(q: u8) -> bool {
    q == 1 || q == 2
}
pub fn q_multi(q: u8) -> bool {
    q == 2 || q == 3
}

// ---------------------------------------------------------------------------
// reference models

/// R-lang: are lines 0..n_l in the language e1{q1} ... en{qn}?  m(e, l) = does e match l.
pub fn r_lang(quants: &[u8], n_l: usize, m: &dyn Fn(usize, usize) -> bool) -> bool {
    let n = quants.len();
    // acc[i][j]: expectations i.. accept lines j..   started[i][j]: e_i has got >=1 line, lines j.. remain
    let mut acc = vec![vec![false; n_l + 1]; n + 1];
    let mut started = vec![vec![false; n_l + 1]; n + 1];
    acc[n][n_l] = true;
    for i in (0..n).rev() {
        for j in (0..=n_l).rev() {
            let st = acc[i + 1][j]
                || (q_multi(quants[i]) && j < n_l && m(i, j) && started[i][j + 1]);
            started[i][j] = st;
        }
        for j in (0..=n_l).rev() {
            acc[i][j] = (q_optional(quants[i]) && acc[i + 1][j])
                || (j < n_l && m(i, j) && started[i][j + 1]);
        }
    }
    acc[0][0]
}

/// R-det: one-line-look-ahead determinism along the unique run.
/// Returns (deterministic, accepted_by_the_unique_run).
pub fn r_det(quants: &[u8], n_l: usize, m: &dyn Fn(usize, usize) -> bool) -> (bool, bool) {
    let n = quants.len();
    let mut next = 0usize; // next not yet started expectation
    let mut open: Option<usize> = None; // open multiline run
    for l in 0..n_l {
        let mut matching: Vec<usize> = vec![];
        if let Some(o) = open {
            if m(o, l) {
                matching.push(o);
            }
        }
        let mut k = next;
        while k < n {
            if m(k, l) {
                matching.push(k);
            }
            if !q_optional(quants[k]) {
                break;
            }
            k += 1;
        }
        if matching.len() > 1 {
            return (false, false);
        }
        match matching.first() {
            None => return (true, false), // the unique run dies: not in the language
            Some(&e) => {
                if Some(e) == open {
                    // stay
                } else {
                    next = e + 1;
                    open = if q_multi(quants[e]) { Some(e) } else { None };
                }
            }
        }
    }
    let rest_optional = (next..n).all(|k| q_optional(quants[k]));
    (true, rest_optional)
}

/// own line splitter (LF terminated, last line may be unterminated)
pub fn split_lines(out: &[u8]) -> Vec<&[u8]> {
    let mut lines = vec![];
    let mut start = 0;
    for (i, b) in out.iter().enumerate() {
        if *b == b'\n' {
            lines.push(&out[start..=i]);
            start = i + 1;
        }
    }
    if start < out.len() {
        lines.push(&out[start..]);
    }
    lines
}

/// C02 invariant. `quants` of the expectations, `lines` the output lines by our own splitter,
/// `m` the real match relation.
pub fn conservation(
    quants: &[u8],
    lines: &[&[u8]],
    m: &dyn Fn(usize, usize) -> bool,
    diff: &Diff,
) -> Result<(), String> {
    let mut next_line = 0usize;
    let mut last_exp: Option<usize> = None;
    let mut mentioned = vec![0u32; quants.len()];
    let mut note_exp = |index: usize, last_exp: &mut Option<usize>| -> Result<(), String> {
        if index >= quants.len() {
            return Err(format!("expectation index {index} out of range"));
        }
        if let Some(p) = *last_exp {
            if index <= p {
                return Err(format!(
                    "expectation indices not strictly ascending: {index} after {p}"
                ));
            }
        }
        *last_exp = Some(index);
        Ok(())
    };
    for dl in &diff.lines {
        match dl {
            DiffLine::MatchedExpectation {
                index,
                expectation: _,
                lines: ls,
            } => {
                note_exp(*index, &mut last_exp)?;
                mentioned[*index] += 1;
                if ls.is_empty() {
                    return Err(format!("matched expectation {index} carries no line"));
                }
                if ls.len() > 1 && !q_multi(quants[*index]) {
                    return Err(format!(
                        "non-multiline expectation {index} is reported with {} lines",
                        ls.len()
                    ));
                }
                for (li, bytes) in ls {
                    if *li != next_line {
                        return Err(format!(
                            "output line {li} mentioned where line {next_line} was due"
                        ));
                    }
                    if *li >= lines.len() {
                        return Err(format!("line index {li} out of range"));
                    }
                    if bytes.as_slice() != lines[*li] {
                        return Err(format!("bytes of line {li} altered"));
                    }
                    if !m(*index, *li) {
                        return Err(format!(
                            "line {li} reported as matched by expectation {index} which does not match it"
                        ));
                    }
                    next_line += 1;
                }
            }
            DiffLine::UnmatchedExpectation {
                index,
                expectation: _,
            } => {
                note_exp(*index, &mut last_exp)?;
                mentioned[*index] += 1;
            }
            DiffLine::UnexpectedLines { lines: ls } => {
                for (li, bytes) in ls {
                    if *li != next_line {
                        return Err(format!(
                            "output line {li} mentioned where line {next_line} was due"
                        ));
                    }
                    if *li >= lines.len() {
                        return Err(format!("line index {li} out of range"));
                    }
                    if bytes.as_slice() != lines[*li] {
                        return Err(format!("bytes of line {li} altered"));
                    }
                    next_line += 1;
                }
            }
        }
    }
    if next_line != lines.len() {
        return Err(format!(
            "only {next_line} of {} output lines are mentioned",
            lines.len()
        ));
    }
    for (i, c) in mentioned.iter().enumerate() {
        if *c > 1 {
            return Err(format!("expectation {i} mentioned {c} times"));
        }
        if *c == 0 && !q_optional(quants[i]) {
            return Err(format!("non-optional expectation {i} is not mentioned"));
        }
    }
    // the counters derived by Diff::new must agree with the lines
    if diff.count_output_lines != lines.len() {
        return Err(format!(
            "count_output_lines {} != {}",
            diff.count_output_lines,
            lines.len()
        ));
    }
    Ok(())
}

fn diff_kinds(diff: &Diff) -> (usize, bool) {
    let (mut m, mut u, mut x, mut multi) = (0, 0, 0, false);
    for dl in &diff.lines {
        match dl {
            DiffLine::MatchedExpectation { lines, .. } => {
                m = 1;
                if lines.len() > 1 {
                    multi = true;
                }
            }
            DiffLine::UnmatchedExpectation { .. } => u = 1,
            DiffLine::UnexpectedLines { .. } => x = 1,
        }
    }
    (m + u + x, multi)
}

#[derive(Clone, Copy, PartialEq, Eq)]
pub enum Which {
    C01,
    C02,
    C03,
}

/// Shared evaluation: returns the verdict for the requested property.
pub fn evaluate(
    which: Which,
    quants: &[u8],
    expectations: Vec<Expectation>,
    out: &[u8],
    validate_level: bool,
    // None: matrix rules; Some(cram): real rules of the Markdown (false) / Cram (true) registry
    flavour: Option<bool>,
) -> V {
    let lines = split_lines(out);
    let n_l = lines.len();
    let exps_for_m = expectations.clone();
    // which lines an expectation matches: for real rules the documented meaning itself where the
    // harness has an independent reading of it (C04 decides the kinds against these readings):
    // `equal` = the expression plus LF, `no-eol` = exactly the expression, `glob` = the glob
    // reference of C04 (valid UTF-8 lines, or patterns without `?`), `regex` = the regex crate on
    // `^(?:expr)$` over the line without its LF. `escaped` and the matrix rules: what the rule says.
    enum Documented {
        Whole(Vec<u8>),
        Glob(Vec<char>),
        Regex(regex::bytes::Regex),
        Rule,
    }
    let documented: Vec<Documented> = expectations
        .iter()
        .map(|e| {
            let (kind, expr, _, _) = e.unmake();
            if flavour.is_none() {
                return Documented::Rule;
            }
            match kind.as_str() {
                "equal" => Documented::Whole([expr.as_slice(), b"\n"].concat()),
                "no-eol" => Documented::Whole(expr),
                "glob" => match String::from_utf8(expr) {
                    Ok(p) => Documented::Glob(p.chars().collect()),
                    Err(_) => Documented::Rule,
                },
                "regex" => match String::from_utf8(expr).ok().and_then(|x| regex::bytes::Regex::new(&format!("^(?:{x})$")).ok()) {
                    Some(r) => Documented::Regex(r),
                    None => Documented::Rule,
                },
                _ => Documented::Rule,
            }
        })
        .collect();
    let cram = flavour.unwrap_or(false);
    let m = |e: usize, l: usize| {
        let line = lines[l];
        let content = line.strip_suffix(b"\n").unwrap_or(line);
        match &documented[e] {
            Documented::Whole(whole_line) => line == whole_line.as_slice(),
            Documented::Glob(p) => match std::str::from_utf8(content) {
                Ok(t) => crate::c04::glob_ref(p, &t.chars().collect::<Vec<_>>(), cram),
                Err(_) if !p.contains(&'?') && !p.contains(&'\u{fffd}') => crate::c04::glob_ref_bytes(p, content, cram),
                Err(_) => exps_for_m[e].matches(line),
            },
            Documented::Regex(r) => r.is_match(content),
            Documented::Rule => exps_for_m[e].matches(line),
        }
    };
    let diff = match guard(|| DiffTool::new(expectations.clone()).diff(out)) {
        Ok(Ok(d)) => d,
        Ok(Err(e)) => {
            return if which == Which::C02 {
                V::fail(format!("diff returned an error: {e}"))
            } else {
                V::pass()
            }
        }
        Err(p) => {
            return if which == Which::C02 {
                V::fail(format!("diff crashed: {p}"))
            } else {
                V::pass()
            }
        }
    };
    let pass = !diff.has_differences();
    let has_quant = quants.iter().any(|q| *q != 0);
    match which {
        Which::C01 => {
            let lang = r_lang(quants, n_l, &m);
            let mut v = V::pass()
                .nt(pass && n_l >= 2 && has_quant)
                .label(if pass { "scrut_pass" } else { "scrut_fail" })
                .label_if(lang, "in_language");
            if pass && !lang {
                return V::fail(format!(
                    "scrut reports a match but the output is not in the language of the expectations (quantifiers {:?}, {} lines)",
                    quants.iter().map(|q| quant_str(*q)).collect::<Vec<_>>(),
                    n_l
                ));
            }
            if validate_level {
                // TestCase::validate must agree with the diff verdict when the exit code is right
                let tc = TestCase {
                    title: "t".into(),
                    shell_expression: "true".into(),
                    expectations,
                    exit_code: None,
                    line_number: 1,
                    config: Default::default(),
                };
                let output = Output {
                    stdout: out.to_vec().into(),
                    stderr: b"unrelated\n".to_vec().into(),
                    exit_code: ExitStatus::Code(0),
                };
                match guard(|| tc.validate(&output)) {
                    Ok(r) => {
                        if r.is_ok() && !lang {
                            return V::fail(
                                "TestCase::validate accepts output that is not in the language",
                            );
                        }
                        if r.is_ok() != pass {
                            return V::fail(format!(
                                "TestCase::validate ok={} disagrees with DiffTool pass={}",
                                r.is_ok(),
                                pass
                            ));
                        }
                    }
                    Err(p) => return V::fail(format!("validate crashed: {p}")),
                }
                v = v.label("validate_level");
            }
            v
        }
        Which::C02 => {
            let (kinds, multi) = diff_kinds(&diff);
            let v = V::pass()
                .nt(kinds >= 2 || multi)
                .label(match kinds {
                    0 => "empty_diff",
                    1 => "one_kind",
                    2 => "two_kinds",
                    _ => "three_kinds",
                })
                .label_if(multi, "multiline_run");
            match conservation(quants, &lines, &m, &diff) {
                Ok(()) => v,
                Err(e) => V::fail(format!("conservation violated: {e}")),
            }
        }
        Which::C03 => {
            let (det, det_accept) = r_det(quants, n_l, &m);
            if !det {
                return V::pass().label("nondeterministic_skipped");
            }
            let lang = r_lang(quants, n_l, &m);
            if det_accept != lang {
                // internal consistency of the two reference models
                return V::fail(format!(
                    "HARNESS BUG: R-det accept={det_accept} but R-lang={lang}"
                ));
            }
            let v = V::pass()
                .nt(has_quant && n_l >= 2)
                .label("deterministic")
                .label(if lang { "in_language" } else { "not_in_language" });
            if pass != lang {
                return V::fail(format!(
                    "deterministic expectations: output {} the language but scrut reports {}",
                    if lang { "is in" } else { "is not in" },
                    if pass { "a match" } else { "a mismatch" }
                ));
            }
            v
        }
    }
}

// ---------------------------------------------------------------------------
// G-matrix

#[derive(Clone, Debug, Serialize, Deserialize)]
pub struct MatrixCase {
    /// (quantifier code, row bitmask over lines)
    pub exps: Vec<(u8, u32)>,
    pub n_lines: u8,
    pub final_newline: bool,
}

impl MatrixCase {
    pub fn output(&self) -> Vec<u8> {
        let mut out = vec![];
        for i in 0..self.n_lines {
            out.extend_from_slice(format!("L{i}").as_bytes());
            if i + 1 < self.n_lines || self.final_newline {
                out.push(b'\n');
            }
        }
        out
    }
    pub fn expectations(&self) -> Vec<Expectation> {
        self.exps
            .iter()
            .map(|(q, bits)| matrix_expectation(*bits, *q))
            .collect()
    }
    pub fn quants(&self) -> Vec<u8> {
        self.exps.iter().map(|(q, _)| *q).collect()
    }
}

pub fn check_matrix(which: Which, case: &MatrixCase) -> V {
    evaluate(
        which,
        &case.quants(),
        case.expectations(),
        &case.output(),
        false,
        None,
    )
}

pub fn matrix_strategy(max_e: usize, max_l: u8) -> BoxedStrategy<MatrixCase> {
    // raw material: per expectation (quant, noise1, noise2, noise3, count hint)
    let exp = (0u8..4, any::<u32>(), any::<u32>(), any::<u32>(), 0u8..4);
    (
        vec(exp, 0..=max_e),
        0u8..=max_l,
        0u8..4,                               // density
        vec((any::<u16>(), any::<u16>()), 0..3), // cell flips
        any::<bool>(),                        // biased towards accepted words
        proptest::bool::weighted(0.85),       // final newline
    )
        .prop_map(move |(raw, n_lines, density, flips, biased, final_newline)| {
            let mask = |a: u32, b: u32, c: u32| match density {
                0 => 0,
                1 => a & b & c,
                2 => a & b,
                _ => a,
            };
            let mut exps: Vec<(u8, u32)> = vec![];
            let mut n = n_lines as usize;
            if biased {
                // sample a word of the language first, then make the matrix accept it
                let mut line = 0usize;
                for (q, a, b, c, hint) in &raw {
                    let count = match q {
                        0 => 1,
                        1 => (*hint % 2) as usize,
                        2 => *hint as usize,
                        _ => 1 + (*hint % 3) as usize,
                    };
                    let mut bits = mask(*a, *b, *c);
                    for _ in 0..count {
                        if line < max_l as usize {
                            bits |= 1 << line;
                            line += 1;
                        }
                    }
                    exps.push((*q, bits));
                }
                n = line;
            } else {
                for (q, a, b, c, _) in &raw {
                    exps.push((*q, mask(*a, *b, *c)));
                }
            }
            // flip up to two cells (mutants of accepted words)
            if !exps.is_empty() && n > 0 {
                for (fe, fl) in &flips {
                    let e = pick_idx(*fe, exps.len());
                    let l = pick_idx(*fl, n);
                    exps[e].1 ^= 1 << l;
                }
            }
            let keep = if n >= 32 { u32::MAX } else { (1u32 << n) - 1 };
            for e in exps.iter_mut() {
                e.1 &= keep;
            }
            MatrixCase {
                exps,
                n_lines: n as u8,
                final_newline,
            }
        })
        .boxed()
}

/// constructive generator of deterministic pairs (disjoint follow sets): every line is matched
/// by exactly one expectation of an accepted assignment and by no other expectation that could
/// come next; then 0..1 mutation.
pub fn det_strategy(max_e: usize) -> BoxedStrategy<MatrixCase> {
    (
        vec((0u8..4, 0u8..4), 1..=max_e),
        proptest::option::of((any::<u16>(), any::<u16>())),
        any::<bool>(),
    )
        .prop_map(|(raw, flip, final_newline)| {
            let mut exps: Vec<(u8, u32)> = vec![];
            let mut line = 0usize;
            for (q, hint) in &raw {
                let count = match q {
                    0 => 1,
                    1 => (*hint % 2) as usize,
                    2 => *hint as usize,
                    _ => 1 + (*hint % 3) as usize,
                };
                let mut bits = 0u32;
                for _ in 0..count {
                    if line < 14 {
                        bits |= 1 << line;
                        line += 1;
                    }
                }
                exps.push((*q, bits));
            }
            if let Some((fe, fl)) = flip {
                if line > 0 {
                    let e = pick_idx(fe, exps.len());
                    let l = pick_idx(fl, line);
                    exps[e].1 ^= 1 << l;
                }
            }
            MatrixCase {
                exps,
                n_lines: line as u8,
                final_newline,
            }
        })
        .boxed()
}

// ---------------------------------------------------------------------------
// G-real

#[derive(Clone, Debug, Serialize, Deserialize)]
pub struct RealCase {
    /// expectation lines as written in a document
    pub exps: Vec<String>,
    #[serde(with = "hexbytes")]
    pub output: Vec<u8>,
    pub cram: bool,
}

const WORDS: &[&str] = &["a", "b", "ab", "", "a b", "é", "ba", "aa"];
const PATTERNS: &[(&str, &str)] = &[
    ("a", ""),
    ("b", ""),
    ("ab", ""),
    ("", ""),
    ("a b", ""),
    ("é", ""),
    ("a*", "glob"),
    ("*", "glob"),
    ("?", "glob"),
    ("??", "glob"),
    ("*b", "glob"),
    ("a|b", "regex"),
    (".*", "regex"),
    ("a.?", "regex"),
    ("[ab]+", "regex"),
    // alternation with a prefix branch first / lazy repetition: the preferred match of an
    // unanchored search stops short of the end of the line
    ("a|ab", "regex"),
    ("a(|b)", "regex"),
    ("a.*?", "regex"),
    ("a", "no-eol"),
    ("b", "no-eol"),
    ("a\\x20b", "escaped"),
    ("\\xc3\\xa9", "escaped"),
    ("a", "equal"),
];

/// for every word of the output alphabet: expectation texts that match a line made of it
const ALIGNED: &[(&str, &[&str])] = &[
    ("a", &["a", "a* (glob)", "* (glob)", "? (glob)", "a|b (regex)", ".* (regex)", "a.? (regex)", "[ab]+ (regex)", "a (equal)"]),
    ("b", &["b", "* (glob)", "? (glob)", "*b (glob)", "a|b (regex)", ".* (regex)", "[ab]+ (regex)"]),
    ("ab", &["ab", "a* (glob)", "* (glob)", "?? (glob)", "*b (glob)", ".* (regex)", "a.? (regex)", "[ab]+ (regex)"]),
    ("", &["", "* (glob)", ".* (regex)"]),
    ("a b", &["a b", "a* (glob)", "* (glob)", "*b (glob)", ".* (regex)", "a\\x20b (escaped)"]),
    ("é", &["é", "* (glob)", "? (glob)", ".* (regex)", "\\xc3\\xa9 (escaped)"]),
    ("ba", &["ba", "* (glob)", "?? (glob)", ".* (regex)", "[ab]+ (regex)"]),
    ("aa", &["aa", "a* (glob)", "* (glob)", "?? (glob)", ".* (regex)", "a.? (regex)", "[ab]+ (regex)"]),
];

/// insert a quantifier into an expectation text (`x` -> `x (?)`, `x (glob)` -> `x (glob?)`)
fn with_quantifier(text: &str, q: u8) -> String {
    let qs = quant_str(q);
    if qs.is_empty() {
        return text.to_string();
    }
    match text.strip_suffix(')') {
        Some(t) if t.contains(" (") => format!("{t}{qs})"),
        _ => format!("{text} ({qs})"),
    }
}

/// aligned family: an expectation list that is built to accept the output (every output line gets
/// one matching expectation with a random quantifier, multiline ones may swallow the next equal
/// line, optional non-matching expectations are sprinkled in), then at most one mutation
fn aligned_strategy() -> BoxedStrategy<RealCase> {
    (
        vec((any::<u16>(), any::<u16>(), 0u8..4, proptest::bool::weighted(0.25)), 0..7),
        proptest::option::weighted(0.3, (any::<u16>(), 0u8..3)),
        proptest::bool::weighted(0.85),
        any::<bool>(),
    )
        .prop_map(|(items, mutation, final_newline, cram)| {
            let mut exps: Vec<String> = vec![];
            let mut output: Vec<u8> = vec![];
            for (w, p, q, extra_optional) in &items {
                let (word, patterns) = ALIGNED[pick_idx(*w, ALIGNED.len())];
                let pattern = patterns[pick_idx(*p, patterns.len())];
                if *extra_optional {
                    exps.push("zzz-not-there (?)".to_string());
                }
                exps.push(with_quantifier(pattern, *q));
                // `?` / `*` may also stand for no line at all
                let lines = match q {
                    1 if p % 3 == 0 => 0,
                    2 => (p % 3) as usize,
                    3 => 1 + (p % 2) as usize,
                    _ => 1,
                };
                for _ in 0..lines {
                    output.extend_from_slice(word.as_bytes());
                    output.push(b'\n');
                }
            }
            if let Some((pos, kind)) = mutation {
                match kind {
                    0 if !exps.is_empty() => {
                        exps.remove(pick_idx(pos, exps.len()));
                    }
                    1 => output.extend_from_slice(b"x\n"),
                    _ => {
                        let at = pick_idx(pos, exps.len() + 1);
                        exps.insert(at, "b".to_string());
                    }
                }
            }
            if !final_newline && output.ends_with(b"\n") {
                output.pop();
                // the last expectation has to be no-eol aware: replace it by a glob (ignores the newline)
                if let Some(last) = exps.last_mut() {
                    if !last.contains(" (") {
                        *last = format!("{last} (no-eol)");
                    }
                }
            }
            RealCase { exps, output, cram }
        })
        .boxed()
}

pub fn real_strategy() -> BoxedStrategy<RealCase> {
    prop_oneof![1 => real_strategy_random(), 1 => aligned_strategy()].boxed()
}

fn real_strategy_random() -> BoxedStrategy<RealCase> {
    let exp = (any::<u16>(), 0u8..4, any::<bool>()).prop_map(|(p, q, _)| {
        let (text, kind) = PATTERNS[pick_idx(p, PATTERNS.len())];
        let qs = quant_str(q);
        if kind.is_empty() && qs.is_empty() {
            text.to_string()
        } else {
            format!("{text} ({kind}{qs})")
        }
    });
    let line = (any::<u16>(), 0u8..20).prop_map(|(w, nl)| {
        let mut l = WORDS[pick_idx(w, WORDS.len())].as_bytes().to_vec();
        match nl {
            0 => l.extend_from_slice(b"\r\n"),
            _ => l.push(b'\n'),
        }
        l
    });
    (
        vec(exp, 0..7),
        vec(line, 0..9),
        proptest::bool::weighted(0.8),
        proptest::bool::weighted(0.3),
        any::<bool>(),
    )
        .prop_map(|(exps, lines, final_newline, identity, cram)| {
            let mut output: Vec<u8> = lines.concat();
            if !final_newline && output.ends_with(b"\n") {
                output.pop();
                if output.ends_with(b"\r") {
                    output.pop();
                }
            }
            let exps = if identity {
                // identity family: the expectations are the output's own lines
                let ls = split_lines(&output);
                ls.iter()
                    .enumerate()
                    .map(|(i, l)| {
                        let text = String::from_utf8_lossy(l).to_string();
                        if let Some(t) = text.strip_suffix('\n') {
                            if t.ends_with('\r') {
                                format!("{}\\r (escaped)", t.trim_end_matches('\r'))
                            } else {
                                t.to_string()
                            }
                        } else if i + 1 == ls.len() {
                            format!("{text} (no-eol)")
                        } else {
                            text
                        }
                    })
                    .collect()
            } else {
                exps
            };
            // echo family (every 7th case by construction of the raw material): the output is the
            // expectation source text itself, modifiers included (a command that prints its own test)
            let output = if !identity && exps.len() % 7 == 3 || (!identity && lines.len() == 1) {
                let mut o = exps.join("\n").into_bytes();
                if !o.is_empty() {
                    o.push(b'\n');
                }
                o
            } else {
                output
            };
            RealCase { exps, output, cram }
        })
        .boxed()
}

pub fn check_real(which: Which, case: &RealCase) -> V {
    let parse = |m: &ExpectationMaker| -> Result<Vec<Expectation>, String> {
        case.exps
            .iter()
            .map(|l| m.parse(l).map_err(|e| format!("{e:#}")))
            .collect()
    };
    let parsed = if case.cram {
        with_cram_maker(parse)
    } else {
        with_maker(parse)
    };
    let expectations = match parsed {
        Ok(e) => e,
        Err(_) => return V::pass().label("unparsable_skipped"),
    };
    let quants: Vec<u8> = expectations
        .iter()
        .map(|e| match (e.optional, e.multiline) {
            (false, false) => 0,
            (true, false) => 1,
            (true, true) => 2,
            (false, true) => 3,
        })
        .collect();
    evaluate(which, &quants, expectations, &case.output, true, Some(case.cram)).label("real_rules")
}

// ---------------------------------------------------------------------------
// bounded exhaustive enumeration

pub struct ExhaustivePart {
    pub which: Which,
    pub quick: (usize, usize),
    pub thorough: (usize, usize),
}

impl Part for ExhaustivePart {
    fn name(&self) -> &'static str {
        "exhaustive"
    }

    fn run(&self, ctx: &Ctx) -> PartReport {
        let (max_e, max_l) = match ctx.tier {
            Tier::Quick => self.quick,
            Tier::Thorough => self.thorough,
        };
        // work items: (n_e, n_l, quant vector index)
        let mut items = vec![];
        for n_e in 0..=max_e {
            for n_l in 0..=max_l {
                for qv in 0..(4usize.pow(n_e as u32)) {
                    items.push((n_e, n_l, qv));
                }
            }
        }
        let next = std::sync::atomic::AtomicUsize::new(0);
        let result: std::sync::Mutex<(u64, u64, BTreeMap<String, u64>, Option<(MatrixCase, String)>)> =
            Default::default();
        std::thread::scope(|s| {
            for _ in 0..ctx.workers {
                s.spawn(|| {
                    let (mut evals, mut nt) = (0u64, 0u64);
                    let mut classes: BTreeMap<String, u64> = BTreeMap::new();
                    let mut failure: Option<(MatrixCase, String)> = None;
                    loop {
                        let i = next.fetch_add(1, std::sync::atomic::Ordering::Relaxed);
                        if i >= items.len() || failure.is_some() {
                            break;
                        }
                        let (n_e, n_l, qv) = items[i];
                        let cells = n_e * n_l;
                        for mbits in 0..(1u64 << cells) {
                            let exps: Vec<(u8, u32)> = (0..n_e)
                                .map(|e| {
                                    let q = ((qv >> (2 * e)) & 3) as u8;
                                    let row = ((mbits >> (e * n_l)) & ((1u64 << n_l) - 1)) as u32;
                                    (q, row)
                                })
                                .collect();
                            let case = MatrixCase {
                                exps,
                                n_lines: n_l as u8,
                                final_newline: true,
                            };
                            let v = check_matrix(self.which, &case);
                            evals += 1;
                            if v.nontrivial {
                                nt += 1; // enumeration: every case is distinct
                            }
                            for l in &v.labels {
                                *classes.entry(l.to_string()).or_insert(0) += 1;
                            }
                            if let Some(m) = v.fail {
                                failure = Some((case, m));
                                break;
                            }
                        }
                    }
                    let mut r = result.lock().unwrap();
                    r.0 += evals;
                    r.1 += nt;
                    for (k, v) in classes {
                        *r.2.entry(k).or_insert(0) += v;
                    }
                    if let Some(f) = failure {
                        let better = match &r.3 {
                            None => true,
                            Some((c, _)) => {
                                (f.0.exps.len(), f.0.n_lines) < (c.exps.len(), c.n_lines)
                            }
                        };
                        if better {
                            r.3 = Some(f);
                        }
                    }
                });
            }
        });
        let (evals, nt, classes, failure) = result.into_inner().unwrap();
        let mut rep = PartReport {
            name: "exhaustive".into(),
            rule: format!(
                "complete enumeration of all match matrices x quantifier vectors for n_e<={max_e}, n_l<={max_l}; every enumerated case is distinct, non-trivial as in the random part"
            ),
            evaluations: evals,
            classes,
            exhaustive: failure.is_none(),
            ..Default::default()
        };
        // distinct non-trivial count: enumeration never repeats a case, so count directly
        rep.nontrivial = (0..nt).collect();
        rep.samples.push(json!({"part": "exhaustive", "case": {"exps": [[2, 3], [0, 2]], "n_lines": 2, "final_newline": true}, "note": "every matrix/quantifier combination up to the bound is visited"}));
        rep.extra.insert("bound".into(), json!({"max_expectations": max_e, "max_lines": max_l}));
        if let Some((case, message)) = failure {
            let replay = write_replay(&ctx.property, "matrix", &case, &message);
            rep.violations.push(Violation {
                part: "exhaustive".into(),
                message,
                replay,
            });
        }
        rep
    }

    fn replay(&self, case: &serde_json::Value) -> Result<V, String> {
        let case: MatrixCase =
            serde_json::from_value(case.clone()).map_err(|e| format!("decode: {e}"))?;
        Ok(check_matrix(self.which, &case))
    }
}

// ---------------------------------------------------------------------------

fn parts(which: Which) -> Vec<Box<dyn Part>> {
    let mut parts: Vec<Box<dyn Part>> = vec![
        Box::new(PropPart::<MatrixCase> {
            name: "matrix",
            rule: match which {
                Which::C01 => "G-matrix: 0..8 expectations x 0..12 lines, arbitrary boolean match matrix injected through the public Rule trait, quantifiers from {1,?,*,+}; half of the cases are accepted words with 0..2 flipped cells. Non-trivial: scrut reported a match, >=2 lines, >=1 quantified expectation",
                Which::C02 => "G-matrix (as C01). Non-trivial: the diff has >=2 kinds of DiffLine or a multi-line run",
                Which::C03 => "G-matrix (as C01), asserted only where R-det holds. Non-trivial: deterministic, >=1 quantifier, >=2 lines",
            },
            quick: 1_500_000,
            thorough: 30_000_000,
            max_workers: 0,
            strategy: Box::new(|_| matrix_strategy(8, 12)),
            check: Box::new(move |c| check_matrix(which, c)),
        }),
        Box::new(PropPart::<RealCase> {
            name: "real",
            rule: "G-real: expectations parsed from text of every kind (equal, no-eol, escaped, glob, regex, Cram glob) with every quantifier over a small alphabet; output lines over the same alphabet with LF/CRLF/missing final newline; 30% identity family (expectations = the output's own lines). The match relation is the real Expectation::matches; TestCase::validate is cross-checked",
            quick: 150_000,
            thorough: 3_000_000,
            max_workers: 0,
            strategy: Box::new(|_| real_strategy()),
            check: Box::new(move |c| check_real(which, c)),
        }),
    ];
    if which == Which::C03 {
        parts.push(Box::new(PropPart::<MatrixCase> {
            name: "det",
            rule: "constructive deterministic pairs: an accepted assignment with disjoint rows (every line matched by exactly one expectation), plus at most one flipped cell. Non-trivial as above",
            quick: 400_000,
            thorough: 8_000_000,
            max_workers: 0,
            strategy: Box::new(|_| det_strategy(8)),
            check: Box::new(move |c| check_matrix(which, c)),
        }));
    }
    parts.push(Box::new(ExhaustivePart {
        which,
        quick: (3, 4),
        thorough: (4, 4),
    }));
    parts
}

pub fn property(id: &str) -> Property {
    let (pid, which) = match id {
        "C01" => ("C01", Which::C01),
        "C02" => ("C02", Which::C02),
        _ => ("C03", Which::C03),
    };
    Property {
        id: pid,
        assumptions: vec![
            "R-lang (30-line dynamic programme) is the definition of the expectation language",
            "matrix cases inject the match relation through the public Rule trait; real cases use Expectation::matches of the tree under test",
            "the harness' own LF splitter defines what an output line is",
        ],
        parts: parts(which),
    }
}
