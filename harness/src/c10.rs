//! C10: `update` rewrites only failing expectations and is idempotent.

use proptest::collection::vec;
use proptest::prelude::*;
use scrut::escaping::Escaper;
use scrut::generators::generator::UpdateGenerator;
use scrut::generators::markdown::MarkdownUpdateGenerator;
use scrut::outcome::Outcome;
use scrut::output::{ExitStatus, Output};
use scrut::parsers::parser::ParserType;
use scrut::testcase::TestCase;
use serde::{Deserialize, Serialize};

use crate::c06::md_parse;
use crate::c08::r_expect;
use crate::docgen::*;
use crate::engine::*;
use crate::proc::*;

#[derive(Clone, Debug, Serialize, Deserialize)]
pub struct UpdCase {
    pub doc: Doc,
    /// intended outcome per test: 0 pass, 1 changed output, 2 changed exit code
    pub outcomes: Vec<u8>,
    /// output lines of the tests whose output changed (empty: a fixed benign text)
    #[serde(default)]
    pub changed: Vec<String>,
}

/// lines for changed outputs: text that collides with the document syntax
const CHANGED_LINES: &[&str] = &[
    "new output",
    "```",
    "```bash",
    "````",
    "`````scrut",
    "``` ",
    "```` tail",
    "`` two",
    "~~~",
    "$ not a command",
    "> not a continuation",
    "[3]",
    "# not a comment",
    "foo (glob)",
    "x (no-eol)",
    "",
    "  ",
    "trailing blanks  ",
    "\ttab and back\\slash",
    "---",
    "ünï 世界",
];

/// a line matched by the expectation written as `line`
fn sample_line(line: &str) -> Vec<u8> {
    let (expr, kind, _) = r_expect(line);
    match kind {
        "no-eol" => expr.into_bytes(),
        "glob" => format!("{}\n", expr.replace('*', "1").replace('?', "2")).into_bytes(),
        "regex" => {
            let first = expr.split('|').next().unwrap_or("").replace(".*", "zz");
            format!("{first}\n").into_bytes()
        }
        "escaped" => {
            let mut b = expr.replace("\\t", "\t").into_bytes();
            b.push(b'\n');
            b
        }
        _ => format!("{expr}\n").into_bytes(),
    }
}

fn make_outputs(tests: &[TestCase], expected: &[ExpectedTest], intents: &[u8], changed: &[String]) -> Vec<Output> {
    tests
        .iter()
        .enumerate()
        .map(|(i, t)| {
            let intent = intents.get(i).copied().unwrap_or(0);
            let mut stdout = vec![];
            if intent == 1 && !changed.is_empty() {
                stdout.extend_from_slice(format!("changed output of test {i}\n").as_bytes());
                for l in changed {
                    stdout.extend_from_slice(l.as_bytes());
                    stdout.push(b'\n');
                }
            } else if intent == 1 {
                stdout.extend_from_slice(format!("changed output of test {i}\nsecond line\n").as_bytes());
            } else if let Some(e) = expected.get(i) {
                for l in &e.expectations {
                    stdout.extend_from_slice(&sample_line(l));
                }
            }
            let want = t.exit_code.unwrap_or(0);
            let code = if intent == 2 { if want == 0 { 3 } else { 0 } } else { want };
            Output {
                stdout: stdout.into(),
                stderr: vec![].into(),
                exit_code: ExitStatus::Code(code),
            }
        })
        .collect()
}

fn outcomes_for(tests: &[TestCase], outputs: &[Output]) -> Vec<Outcome> {
    tests
        .iter()
        .zip(outputs.iter())
        .map(|(t, o)| Outcome {
            location: None,
            output: o.clone(),
            testcase: t.clone(),
            format: ParserType::Markdown,
            escaping: Escaper::Unicode,
            result: t.validate(o),
        })
        .collect()
}

fn run_update(text: &str, outcomes: &[Outcome]) -> Result<String, String> {
    let refs: Vec<&Outcome> = outcomes.iter().collect();
    match guard(|| MarkdownUpdateGenerator::default().generate_update(text, &refs)) {
        Err(p) => Err(format!("generate_update crashed: {p}")),
        Ok(Err(e)) => Err(format!("generate_update failed: {e:#}")),
        Ok(Ok(u)) => Ok(u),
    }
}

fn is_fence_open(line: &str) -> Option<(usize, String)> {
    let n = line.chars().take_while(|c| *c == '`').count();
    if n >= 3 && line[n..].starts_with("scrut") {
        Some((n, line[n..].to_string()))
    } else {
        None
    }
}

pub fn check_update(c: &UpdCase) -> V {
    let r = render(&c.doc);
    let text = &r.text;
    let tests = match md_parse(text) {
        Ok(Ok((_, t))) => t,
        _ => return V::pass().label("document_not_parsable_skipped"),
    };
    if tests.len() != r.tests.len() {
        return V::pass().label("parse_differs_from_model_skipped"); // C06's domain
    }
    if tests.is_empty() {
        return V::pass().label("no_tests");
    }
    let outputs = make_outputs(&tests, &r.tests, &c.outcomes, &c.changed);
    let outcomes = match guard(|| outcomes_for(&tests, &outputs)) {
        Ok(o) => o,
        Err(p) => return V::fail(format!("validate crashed: {p}")),
    };
    let n_pass = outcomes.iter().filter(|o| o.result.is_ok()).count();
    let n_fail = outcomes.len() - n_pass;
    let last_span_end = r.spans.last().map(|s| s.1).unwrap_or(0);
    let text_after_last_block = r.lines.len() > last_span_end
        && r.lines[last_span_end..].iter().any(|l| !l.is_empty())
        || !matches!(c.doc.tail, Tail::None)
        || c.doc.blocks.last().map(|b| !matches!(b, Blk::Scrut(_))).unwrap_or(false);
    let v = V::pass()
        .nt(n_pass >= 1 && n_fail >= 1 && text_after_last_block)
        .label_if(n_pass >= 1, "has_passing_test")
        .label_if(n_fail >= 1, "has_failing_test")
        .label_if(c.doc.front.is_some(), "front_matter")
        .label_if(!matches!(c.doc.tail, Tail::None), "unterminated_tail")
        .label_if(c.doc.blocks.iter().any(|b| matches!(b, Blk::EmptyScrut { .. } | Blk::CommentOnlyScrut { .. } | Blk::ExitOnlyScrut { .. })), "scrut_block_without_command");

    let updated = match run_update(text, &outcomes) {
        Ok(u) => u,
        Err(m) => return V::fail(format!("{m}\ndocument:\n{text}")),
    };
    let fail = |m: String| V::fail(format!("{m}\n--- original:\n{text}\n--- updated:\n{updated}"));

    // (1) skeleton: outside segments byte for byte, blocks in between
    // scrut blocks of the original (every ```scrut token, with or without command)
    let mut block_spans: Vec<(usize, usize, Option<usize>)> = vec![]; // (start, end, test index)
    let mut ti = 0;
    for (bi, blk) in c.doc.blocks.iter().enumerate() {
        match blk {
            Blk::Scrut(_) | Blk::ScrutCfgTrailingBlank(_) | Blk::ScrutLangTrailingBlank(_) => {
                block_spans.push((r.spans[bi].0, r.spans[bi].1, Some(ti)));
                ti += 1;
            }
            Blk::EmptyScrut { .. } | Blk::CommentOnlyScrut { .. } | Blk::ExitOnlyScrut { .. } => {
                block_spans.push((r.spans[bi].0, r.spans[bi].1, None));
            }
            _ => {}
        }
    }
    let orig_lines: Vec<&str> = text.lines().collect();
    let upd_lines: Vec<&str> = updated.lines().collect();
    let mut u = 0usize;
    let mut o = 0usize;
    let mut new_blocks: Vec<(usize, usize)> = vec![];
    for (start, end, _) in &block_spans {
        // outside segment before this block
        for k in o..*start {
            if u >= upd_lines.len() || upd_lines[u] != orig_lines[k] {
                return fail(format!(
                    "line {} outside of test blocks is not preserved: original {:?}, updated {:?}",
                    k + 1,
                    orig_lines[k],
                    upd_lines.get(u)
                ));
            }
            u += 1;
        }
        // the block in the updated document
        let Some((n, rest)) = upd_lines.get(u).and_then(|l| is_fence_open(l)) else {
            return fail(format!(
                "expected the test block of original line {} at updated line {}, found {:?}",
                start + 1,
                u + 1,
                upd_lines.get(u)
            ));
        };
        // language and config text of the original fence line
        let (_, orest) = is_fence_open(orig_lines[*start]).unwrap();
        let norm = |s: &str| s.split_whitespace().collect::<Vec<_>>().join(" ").replace("scrut{", "scrut {");
        if norm(&rest) != norm(&orest) {
            return fail(format!(
                "fence line of the block at original line {}: language/config {:?} became {:?}",
                start + 1,
                orest,
                rest
            ));
        }
        let bstart = u;
        u += 1;
        let closing = "`".repeat(n);
        while u < upd_lines.len() && upd_lines[u] != closing {
            u += 1;
        }
        if u >= upd_lines.len() {
            return fail(format!("updated block starting at line {} is not closed by {closing:?}", bstart + 1));
        }
        u += 1;
        new_blocks.push((bstart, u));
        o = *end;
    }
    for k in o..orig_lines.len() {
        if u >= upd_lines.len() || upd_lines[u] != orig_lines[k] {
            return fail(format!(
                "line {} after the last test block is not preserved: original {:?}, updated {:?}",
                k + 1,
                orig_lines[k],
                upd_lines.get(u)
            ));
        }
        u += 1;
    }
    if u != upd_lines.len() {
        return fail(format!("updated document has {} extra line(s) at the end", upd_lines.len() - u));
    }
    // final newline aside, nothing else may differ: checked line-wise above

    // (2) per block: comments kept, passing tests verbatim
    for ((start, end, ti), (bs, be)) in block_spans.iter().zip(new_blocks.iter()) {
        let orig_block = &orig_lines[*start..*end];
        let new_block = &upd_lines[*bs..*be];
        let orig_comments: Vec<&&str> = orig_block[1..].iter().take_while(|l| l.starts_with('#')).collect();
        let new_comments: Vec<&&str> = new_block[1..].iter().take_while(|l| l.starts_with('#')).collect();
        if orig_comments != new_comments {
            return fail(format!("comment lines of the block at line {}: {:?} became {:?}", start + 1, orig_comments, new_comments));
        }
        match ti {
            None => {
                if orig_block[1..orig_block.len() - 1] != new_block[1..new_block.len() - 1] {
                    return fail(format!("block without command at line {} was altered", start + 1));
                }
            }
            Some(ti) => {
                if outcomes[*ti].result.is_ok() {
                    // command and expectation lines verbatim (position of `[n]` not asserted; lines
                    // written before the `$` line are expectations too and may be moved behind it,
                    // so command lines and the other lines are compared as two sequences)
                    let strip = |b: &[&str]| -> (Vec<String>, Vec<String>) {
                        let mut cmd = vec![];
                        let mut other = vec![];
                        let mut in_cmd = false;
                        for l in b[1..b.len() - 1].iter() {
                            if l.starts_with('[') && l.ends_with(']') && l.len() > 2 && l[1..l.len() - 1].chars().all(|c| c.is_ascii_digit()) {
                                in_cmd = false;
                                continue;
                            }
                            if cmd.is_empty() && l.starts_with("$ ") {
                                in_cmd = true;
                                cmd.push(l.to_string());
                            } else if in_cmd && l.starts_with("> ") {
                                cmd.push(l.to_string());
                            } else {
                                in_cmd = false;
                                other.push(l.to_string());
                            }
                        }
                        (cmd, other)
                    };
                    if strip(orig_block) != strip(new_block) {
                        return fail(format!(
                            "passing test at line {}: lines {:?} became {:?}",
                            start + 1,
                            strip(orig_block),
                            strip(new_block)
                        ));
                    }
                }
            }
        }
    }

    // (3)+(4) the updated document parses to the same commands, expected codes of passing tests kept
    let tests2 = match md_parse(&updated) {
        Ok(Ok((_, t))) => t,
        Ok(Err(e)) => return fail(format!("updated document does not parse: {e:#}")),
        Err(p) => return fail(format!("parser crashed on the updated document: {p}")),
    };
    let cmds = |t: &[TestCase]| t.iter().map(|x| x.shell_expression.clone()).collect::<Vec<_>>();
    if cmds(&tests) != cmds(&tests2) {
        return fail(format!("commands {:?} became {:?}", cmds(&tests), cmds(&tests2)));
    }
    for (i, (a, b)) in tests.iter().zip(tests2.iter()).enumerate() {
        if outcomes[i].result.is_ok() && a.exit_code.unwrap_or(0) != b.exit_code.unwrap_or(0) {
            return fail(format!("passing test {i}: expected exit code {:?} became {:?}", a.exit_code, b.exit_code));
        }
        if a.config != b.config {
            return fail(format!("test {i}: config {} became {}", a.config, b.config));
        }
    }

    // (5) idempotence
    let outcomes2 = match guard(|| outcomes_for(&tests2, &outputs)) {
        Ok(o) => o,
        Err(p) => return fail(format!("validate crashed: {p}")),
    };
    let updated2 = match run_update(&updated, &outcomes2) {
        Ok(u) => u,
        Err(m) => return fail(format!("second update: {m}")),
    };
    if updated2 != updated {
        // the greedy matcher can reject the block update itself wrote (C09 known finding);
        // then the second update legitimately rewrites again
        let greedy = outcomes2.iter().zip(outcomes.iter()).any(|(b, a)| b.result.is_err() && a.result.is_err())
            && outcomes2.iter().any(|o| o.result.is_err() && !o.testcase.expectations.is_empty());
        let msg = format!("update is not idempotent: the second update changes the document to\n{updated2}");
        if greedy && c.outcomes.iter().all(|x| *x != 2) {
            return known_or_fail("update-rewrites-into-nondeterministic-expectations", format!("{msg}\n--- first update:\n{updated}"));
        }
        return fail(msg);
    }
    v
}

fn case_strategy() -> BoxedStrategy<UpdCase> {
    let doc = prop_oneof![
        4 => core_doc(6, true),
        1 => (core_doc(5, true), 3u8..6, proptest::sample::select(FOREIGN_INFO.to_vec()), vec(proptest::sample::select(FOREIGN_BODY.to_vec()).prop_map(String::from), 0..4))
            .prop_map(|(mut d, fence, info, body)| {
                d.tail = Tail::UnterminatedForeign { fence, info: info.to_string(), body };
                d
            }),
    ];
    (
        doc,
        vec(prop_oneof![2 => Just(0u8), 1 => Just(1u8), 1 => Just(2u8)], 8),
        any::<bool>(),
        prop_oneof![1 => Just(vec![]), 2 => vec(proptest::sample::select(CHANGED_LINES.to_vec()).prop_map(String::from), 1..4)],
        vec((any::<u16>(), scrut_blk()), 2),
    )
        .prop_map(|(mut doc, mut outcomes, tail_prose, changed, extra)| {
            // an update needs tests: top up to two scrut blocks with a command
            for (pos, blk) in extra {
                if doc.blocks.iter().filter(|b| matches!(b, Blk::Scrut(_))).count() >= 2 {
                    break;
                }
                let at = pick_idx(pos, doc.blocks.len() + 1);
                doc.blocks.insert(at, Blk::Scrut(blk));
                doc.gaps.insert(at.min(doc.gaps.len()), 1);
            }
            // make the interesting shape frequent: first test passes, second fails, text at the end
            if outcomes.len() >= 2 {
                outcomes[0] = 0;
                outcomes[1] = 1 + outcomes[1] % 2;
            }
            if tail_prose && matches!(doc.tail, Tail::None) {
                doc.blocks.push(Blk::Prose { lines: vec!["Text after the last test block.".into(), "- and a list item".into()] });
                doc.gaps.push(1);
            }
            UpdCase { doc, outcomes, changed }
        })
        .boxed()
}

// ---------------------------------------------------------------------------
// end to end: scrut update --replace --assume-yes, twice

#[derive(Clone, Debug, Serialize, Deserialize)]
pub struct E2eCase {
    /// per test: (payload lines, exit code, intent)
    pub tests: Vec<(Vec<String>, u8, u8)>,
    pub prose_between: bool,
    pub trailing_text: bool,
    pub unterminated_tail: bool,
    /// 1: a document whose tests all pass is given before this one in the same `scrut update`
    /// run (it must stay untouched and must not disturb the update of this one); 2: after it
    #[serde(default)]
    pub passing_neighbour: u8,
}

fn check_e2e(c: &E2eCase) -> V {
    let dir = match CaseDir::new("C10") {
        Ok(d) => d,
        Err(e) => inconclusive(&format!("scratch: {e}")),
    };
    let mut doc = String::from("---\ntotal_timeout: 30s\n---\n\n# Update me\n\nSome prose with `inline` code.\n\n");
    let mut outside: Vec<String> = vec![];
    for (i, (lines, code, intent)) in c.tests.iter().enumerate() {
        // lines that collide with the document syntax can only be *output* (intent 1: the
        // expectations are outdated anyway); written as expectations they would be other syntax
        let lines: Vec<String> = lines
            .iter()
            .filter(|l| *intent == 1 || !(l.starts_with("```") || l.starts_with("$ ") || l.starts_with("> ") || l.starts_with('[')))
            .cloned()
            .collect();
        let lines = &lines;
        let pf = dir.path().join(format!("payload{i}.txt"));
        std::fs::write(&pf, lines.iter().map(|l| format!("{l}\n")).collect::<String>()).ok();
        doc.push_str(&format!("## test {i}\n\n```scrut\n# keep this comment\n$ cat '{}'; (exit {code})\n", pf.display()));
        match intent {
            0 => {
                for l in lines {
                    doc.push_str(&format!("{l}\n"));
                }
                if *code != 0 {
                    doc.push_str(&format!("[{code}]\n"));
                }
            }
            1 => doc.push_str("outdated expectation\n"),
            _ => {
                for l in lines {
                    doc.push_str(&format!("{l}\n"));
                }
                doc.push_str(&format!("[{}]\n", if *code == 7 { 8 } else { 7 }));
            }
        }
        doc.push_str("```\n\n");
        if c.prose_between {
            let p = format!("``x`` prose after test {i} that must survive");
            doc.push_str(&format!("{p}\n\n```python\nprint('{i}')\n```\n\n"));
            outside.push(p);
        }
    }
    if c.trailing_text {
        doc.push_str("Trailing paragraph that must survive.\n\n- and a list\n");
        outside.push("Trailing paragraph that must survive.".into());
    }
    if c.unterminated_tail {
        doc.push_str("\n```text\nunterminated block at the end\nlast line\n");
        outside.push("last line".into());
    }
    let path = dir.path().join("doc.md");
    std::fs::write(&path, &doc).ok();
    // a neighbour document in the same run whose only test passes: `update` leaves it alone
    let neighbour = dir.path().join("neighbour.md");
    let neighbour_text = "# neighbour\n\n```scrut\n$ echo neighbour output\nneighbour output\n```\n\nText of the neighbour.\n";
    std::fs::write(&neighbour, neighbour_text).ok();
    let args: Vec<&str> = match c.passing_neighbour {
        1 => vec!["update", "--replace", "--assume-yes", "--no-color", neighbour.to_str().unwrap(), path.to_str().unwrap()],
        2 => vec!["update", "--replace", "--assume-yes", "--no-color", path.to_str().unwrap(), neighbour.to_str().unwrap()],
        _ => vec!["update", "--replace", "--assume-yes", "--no-color", path.to_str().unwrap()],
    };
    let r1 = match run_scrut(&dir, &args, 60) {
        Ok(r) => r,
        Err(e) => inconclusive(&format!("scrut update: {e}")),
    };
    let after1 = std::fs::read_to_string(&path).unwrap_or_default();
    let v = V::pass()
        .nt(c.tests.iter().any(|t| t.2 == 0) && c.tests.iter().any(|t| t.2 != 0) && (c.trailing_text || c.unterminated_tail))
        .label_if(c.unterminated_tail, "unterminated_tail")
        .label_if(c.passing_neighbour != 0, "passing_document_in_the_same_run")
        .label_if(c.prose_between, "prose_between");
    let fail = |m: String| V::fail(format!("{m}\n--- original:\n{doc}\n--- after update:\n{after1}\nstderr: {}", truncate(&r1.stderr, 500)));
    if r1.code != Some(0) {
        return fail(format!("scrut update exits {:?}", r1.code));
    }
    for o in &outside {
        if !after1.lines().any(|l| l == o) {
            return fail(format!("line {o:?} outside of the test blocks is gone"));
        }
    }
    if c.passing_neighbour != 0 && std::fs::read_to_string(&neighbour).unwrap_or_default() != neighbour_text {
        return fail(format!(
            "the neighbour document of the same run, whose test passes, was changed to:\n{}",
            std::fs::read_to_string(&neighbour).unwrap_or_default()
        ));
    }
    if after1.matches("# keep this comment").count() != c.tests.len() {
        return fail("comment lines were not kept".into());
    }
    if after1.matches("```scrut").count() != c.tests.len() {
        return fail("number of scrut blocks changed".into());
    }
    // the updated document passes
    let t = match run_scrut(&dir, &["test", "-r", "json", "--no-color", path.to_str().unwrap()], 60) {
        Ok(r) => r,
        Err(e) => inconclusive(&format!("scrut test: {e}")),
    };
    let kinds = json_result_kinds(&t.stdout).unwrap_or_default();
    if t.code != Some(0) || kinds.len() != c.tests.len() {
        return fail(format!("updated document does not pass: exit {:?} kinds {:?}", t.code, kinds));
    }
    // second update changes nothing
    let r2 = match run_scrut(&dir, &args, 60) {
        Ok(r) => r,
        Err(e) => inconclusive(&format!("scrut update: {e}")),
    };
    let after2 = std::fs::read_to_string(&path).unwrap_or_default();
    if r2.code != Some(0) || after2 != after1 {
        return fail(format!("second update (exit {:?}) changes the document to:\n{after2}", r2.code));
    }
    v
}

fn e2e_strategy() -> BoxedStrategy<E2eCase> {
    (
        vec(
            (
                vec(proptest::sample::select(vec!["alpha", "beta gamma", "", "ünï", "  indented", "x (with parens)", "```", "```bash", "````", "$ x", "> y", "[2]"]).prop_map(String::from), 0..4),
                prop_oneof![3 => Just(0u8), 1 => Just(3u8), 1 => Just(7u8)],
                0u8..3,
            ),
            1..4,
        ),
        any::<bool>(),
        any::<bool>(),
        proptest::bool::weighted(0.3),
        prop_oneof![2 => Just(0u8), 2 => Just(1u8), 1 => Just(2u8)],
    )
        .prop_map(|(tests, prose_between, trailing_text, unterminated_tail, passing_neighbour)| E2eCase {
            tests,
            prose_between,
            trailing_text,
            unterminated_tail,
            passing_neighbour,
        })
        .boxed()
}

pub fn property() -> Property {
    Property {
        id: "C10",
        assumptions: vec![
            "documents are G-doc core documents (LF) plus an unterminated foreign block at the end; outcomes are computed by the real validate on constructed outputs",
            "skeleton oracle: outside lines byte for byte (final newline aside); fence length and blanks around {config} may change; position of the [n] line is not asserted",
            "idempotence is not asserted where the second validate fails because of the greedy matcher (C09 known finding)",
        ],
        parts: vec![
            Box::new(PropPart::<UpdCase> {
                name: "library",
                rule: "G-doc (front-matter, prose incl. backtick-leading lines, headings, foreign and nested blocks, scrut blocks with config/comments, blocks without command, unterminated foreign block at the end) x per-test outcome {pass, changed output, changed exit code}; generate_update checked for skeleton preservation, verbatim passing tests, same commands/config after re-parse, idempotence. Non-trivial: >=1 passing and >=1 failing test and content after the last test block",
                quick: 100_000,
                thorough: 2_000_000,
                max_workers: 0,
                strategy: Box::new(|_| case_strategy()),
                check: Box::new(check_update),
            }),
            Box::new(PropPart::<E2eCase> {
                name: "e2e",
                rule: "`scrut update --replace --assume-yes` on generated documents (front-matter, comments, prose starting with backticks, foreign blocks, trailing text, unterminated block at the end) with passing / outdated / wrong-exit-code tests; then `scrut test` must pass and a second update must not change the file. Non-trivial: passing and failing tests and trailing content",
                quick: 200,
                thorough: 3_000,
                max_workers: 12,
                strategy: Box::new(|_| e2e_strategy()),
                check: Box::new(check_e2e),
            }),
            Box::new(PropPart::<crate::c06::MdSoup> {
                name: "soup",
                rule: "arbitrary sequences of Markdown-like lines (unbalanced fences, block skeletons, `$` / `>` / `[n]` lines anywhere, random Unicode text, text ending in LF / nothing / a bare CR) that parse: `update` with empty outputs must not crash, must keep the commands and, where the rewritten tests pass, must be idempotent. Non-trivial: >=2 tests",
                quick: 40_000,
                thorough: 1_000_000,
                max_workers: 0,
                strategy: Box::new(|_| crate::c06::soup_strategy()),
                check: Box::new(check_soup),
            }),
        ],
    }
}

/// fuzz entry: update a parsed document where every command "printed nothing and exited 0":
/// no crash, the updated text parses to the same commands, a second update changes nothing
pub fn fuzz_update(text: &str, tests: &[TestCase]) -> Option<String> {
    if tests.is_empty() {
        return None;
    }
    let outputs: Vec<Output> = tests
        .iter()
        .map(|_| Output {
            stdout: vec![].into(),
            stderr: vec![].into(),
            exit_code: ExitStatus::Code(0),
        })
        .collect();
    let outcomes = match guard(|| outcomes_for(tests, &outputs)) {
        Ok(o) => o,
        Err(p) => return Some(format!("validate crashed: {p}")),
    };
    let updated = match run_update(text, &outcomes) {
        Ok(u) => u,
        Err(m) => return Some(m),
    };
    let tests2 = match md_parse(&updated) {
        Ok(Ok((_, t))) => t,
        Ok(Err(e)) => return Some(format!("updated document does not parse: {e:#}\n--- original:\n{text}\n--- updated:\n{updated}")),
        Err(p) => return Some(format!("parser crashed on the updated document: {p}")),
    };
    let cmds = |t: &[TestCase]| t.iter().map(|x| x.shell_expression.clone()).collect::<Vec<_>>();
    if cmds(tests) != cmds(&tests2) {
        return Some(format!("update changes the commands {:?} to {:?}\n--- original:\n{text}\n--- updated:\n{updated}", cmds(tests), cmds(&tests2)));
    }
    // the same (empty) outputs again: nothing left to change
    let outcomes2 = match guard(|| outcomes_for(&tests2, &outputs)) {
        Ok(o) => o,
        Err(p) => return Some(format!("validate crashed: {p}")),
    };
    if outcomes2.iter().all(|o| o.result.is_ok()) {
        match run_update(&updated, &outcomes2) {
            Ok(u) if u == updated => {}
            Ok(u) => return Some(format!("update is not idempotent\n--- original:\n{text}\n--- updated:\n{updated}\n--- updated again:\n{u}")),
            Err(m) => return Some(format!("second update: {m}")),
        }
    }
    None
}

fn check_soup(c: &crate::c06::MdSoup) -> V {
    let text = c.text();
    let tests = match md_parse(&text) {
        Ok(Ok((_, t))) => t,
        _ => return V::pass().label("document_not_parsable_skipped"),
    };
    let v = V::pass().nt(tests.len() >= 2).label_if(tests.is_empty(), "no_tests").label_if(c.final_cr && !c.final_newline, "ends_in_bare_cr");
    match crate::fuzz::update(text.as_bytes()) {
        Some(m) => V::fail(m),
        None => v,
    }
}
