//! C09: generated tests pass against the very output they were generated from.

use proptest::collection::vec;
use proptest::prelude::*;
use scrut::config::{OutputStreamControl, TestCaseConfig};
use scrut::escaping::Escaper;
use scrut::generators::cram::{CramTestCaseGenerator, CramUpdateGenerator};
use scrut::generators::generator::{TestCaseGenerator, UpdateGenerator};
use scrut::generators::markdown::{MarkdownTestCaseGenerator, MarkdownUpdateGenerator};
use scrut::outcome::Outcome;
use scrut::output::{ExitStatus, Output};
use scrut::parsers::parser::ParserType;
use scrut::testcase::TestCase;
use serde::{Deserialize, Serialize};

use crate::c06::md_parse;
use crate::c07::cram_parse;
use crate::c08::r_expect_sep;
use crate::engine::*;
use crate::matcher::{r_det, split_lines};
use crate::proc::*;

#[derive(Clone, Debug, Serialize, Deserialize)]
pub struct GenCase {
    #[serde(with = "hexlines")]
    pub lines: Vec<Vec<u8>>,
    pub final_lf: bool,
    pub code: u8,
    pub cram: bool,
    pub ascii: bool,
    pub cmd: Vec<String>,
    /// 0 create, 1 update, 2 convert to the other format
    pub mode: u8,
    /// prior expectation lines (update / convert)
    pub prior: Vec<String>,
    pub prior_code: Option<u8>,
}

pub const LINE_CLASSES: &[(&str, &[&[u8]])] = &[
    ("plain", &[b"plain output", b"another line", b"x", b"foo bar baz"]),
    ("modifier_lookalike", &[b"foo (glob)", b"bar (?)", b"x ()", b"y (esc+)", b"z (no-eol)", b"w (regex*)", b"(glob)", b" (equal)", b"q (*)", b"C:\\temp\\x (glob)", b"a\\tb (?)"]),
    ("marker_inside_line", &[b"job 17 (escaped) quotes", b"a (esc) b", b"col\tx (escaped) col (escaped)", b"x (glob) y", b"(no-eol) first", b"a (escaped)b", b"two  (escaped)  blanks"]),
    ("unicode_blank_lookalike", &[b"foo\xe3\x80\x80(glob)", b"bar\xc2\xa0(?)", b"baz\xe2\x80\x83(re)"]),
    ("exit_code_lookalike", &[b"[1]", b"[0]", b"[255]", b"[12345678901]"]),
    ("command_lookalike", &[b"$ x", b"> x", b"$ ", b"> ", b"  $ indented", b"# hash", b"$ cd C:\\temp\\bin", b"> \\\\server\\share", b"[1]"]),
    ("fence", &[b"```", b"````", b"```scrut", b"`````x", b"``two", b"`one"]),
    ("blank", &[b"", b" ", b"   ", b"trailing ", b"trailing   ", b"  leading", b"\t"]),
    ("backslash", &[b"a\\tb", b"\\\\", b"\\x41", b"a\\", b"\\n", b"C:\\dir\\file"]),
    ("control", &[b"a\tb", b"\x1b[1mbold\x1b[0m", b"nul\x00byte", b"\x7f", b"bell\x07", b"a\\tb\x1b"]),
    ("invalid_utf8", &[b"\xff\xfe", b"ok\xc3", b"\x80abc", b"\\\xff"]),
    ("non_ascii", &["ünï".as_bytes(), "世界".as_bytes(), "😀 emoji".as_bytes(), "zero\u{200b}width".as_bytes(), "nb\u{a0}sp".as_bytes()]),
    ("carriage_return", &[b"line\r", b"a\rb", b"\r"]),
];

fn line_strategy() -> BoxedStrategy<Vec<u8>> {
    let mut all: Vec<Vec<u8>> = vec![];
    for (_, ls) in LINE_CLASSES {
        for l in ls.iter() {
            all.push(l.to_vec());
        }
    }
    prop_oneof![
        3 => proptest::sample::select(LINE_CLASSES[0].1.iter().map(|l| l.to_vec()).collect::<Vec<_>>()),
        8 => proptest::sample::select(all),
        1 => vec(any::<u8>(), 0..6).prop_map(|v| v.into_iter().filter(|b| *b != b'\n').collect()),
        1 => "[ -~]{0,10}".prop_map(|s: String| s.into_bytes()),
    ]
    .boxed()
}

pub fn classes_of(lines: &[Vec<u8>]) -> Vec<&'static str> {
    let mut out = vec![];
    for (name, ls) in LINE_CLASSES {
        if *name != "plain" && lines.iter().any(|l| ls.iter().any(|x| *x == l.as_slice())) {
            out.push(*name);
        }
    }
    out
}

const PRIOR: &[&str] = &["plain output", "x", "* (glob)", "C:\\* (glob)", "a\\?b (glob?)", "?? (glob*)", "x (?)", "", "another line (+)", ".* (regex*)", "foo bar baz (*)"];
const CMD: &[&str] = &["the command", "cat file", "printf 'a\\n' | sort", "echo $VAR"];
const CMD_CONT: &[&str] = &["--flag", "| tail", "second line", "", ""];

fn case_strategy() -> BoxedStrategy<GenCase> {
    (
        vec(line_strategy(), 0..6),
        proptest::bool::weighted(0.8),
        prop_oneof![3 => Just(0u8), 1 => Just(1u8), 1 => any::<u8>()],
        any::<bool>(),
        any::<bool>(),
        (proptest::sample::select(CMD.to_vec()), vec(proptest::sample::select(CMD_CONT.to_vec()), 0..3)),
        prop_oneof![2 => Just(0u8), 2 => Just(1u8), 1 => Just(2u8)],
        vec(proptest::sample::select(PRIOR.to_vec()).prop_map(String::from), 0..4),
        proptest::option::of(prop_oneof![Just(0u8), Just(1u8), any::<u8>()]),
    )
        .prop_map(|(lines, final_lf, code, cram, ascii, (c0, cont), mode, prior, prior_code)| {
            let mut cmd = vec![c0.to_string()];
            cmd.extend(cont.into_iter().map(String::from));
            GenCase {
                lines,
                final_lf,
                code: if code == 80 { 81 } else { code },
                cram,
                ascii,
                cmd,
                mode,
                prior: if mode == 0 { vec![] } else { prior },
                prior_code: if mode == 0 { None } else { prior_code },
            }
        })
        .boxed()
}

fn raw_output(c: &GenCase) -> Vec<u8> {
    let mut out = vec![];
    for (i, l) in c.lines.iter().enumerate() {
        out.extend_from_slice(l);
        if i + 1 < c.lines.len() || c.final_lf {
            out.push(b'\n');
        }
    }
    out
}

fn parse_fmt(cram: bool, text: &str) -> Result<Vec<TestCase>, String> {
    let r = if cram { cram_parse(text) } else { md_parse(text) };
    match r {
        Err(p) => Err(format!("parser crashed: {p}")),
        Ok(Err(e)) => Err(format!("generated document does not parse: {e:#}")),
        Ok(Ok((_, t))) => Ok(t),
    }
}

/// does any output line collide with the test syntax? (root-cause signature of the known finding)
fn syntax_collision(c: &GenCase, rendered: &[u8]) -> Option<&'static str> {
    for l in split_lines(rendered) {
        let content = l.strip_suffix(b"\n").unwrap_or(l);
        let Ok(text) = std::str::from_utf8(content) else { continue };
        let (e, k, q) = r_expect_sep(text, false);
        if !(e == text && k == "equal" && q.is_empty()) {
            return Some("modifier");
        }
        if text.ends_with(" ()") {
            return Some("modifier");
        }
        if text.len() >= 3
            && text.starts_with('[')
            && text.ends_with(']')
            && text[1..text.len() - 1].chars().all(|ch| ch.is_ascii_digit())
        {
            return Some("exit_code");
        }
        if text.starts_with("$ ") || text.starts_with("> ") {
            return Some("command");
        }
        if c.cram && text.starts_with('#') {
            // `# x` at the start of a body line is fine (indented), nothing to do
        }
    }
    None
}

pub fn check_case(c: &GenCase) -> V {
    let format_cfg = if c.cram { TestCaseConfig::default_cram() } else { TestCaseConfig::default_markdown() };
    let escaper = if c.ascii { Escaper::Ascii } else { Escaper::Unicode };
    let shell_expression = c.cmd.join("\n");
    let raw = raw_output(c);

    // the test case before generation
    let (mut testcase, original_doc) = if c.mode == 0 {
        (
            TestCase {
                title: "a title".into(),
                shell_expression: shell_expression.clone(),
                expectations: vec![],
                exit_code: None,
                line_number: 0,
                config: format_cfg.clone(),
            },
            String::new(),
        )
    } else {
        // write the prior document in the source format and parse it
        let mut body = String::new();
        for (i, l) in c.cmd.iter().enumerate() {
            body.push_str(&format!("{}{}\n", if i == 0 { "$ " } else { "> " }, l));
        }
        for p in &c.prior {
            body.push_str(p);
            body.push('\n');
        }
        if let Some(pc) = c.prior_code {
            body.push_str(&format!("[{pc}]\n"));
        }
        let doc = if c.cram {
            let mut d = String::from("a title\n");
            for l in body.lines() {
                d.push_str(&format!("  {l}\n"));
            }
            d
        } else {
            format!("# a title\n\n```scrut\n{body}```\n")
        };
        match parse_fmt(c.cram, &doc) {
            Ok(t) if t.len() == 1 => (t[0].clone(), doc),
            Ok(_) | Err(_) => return V::pass().label("prior_document_unusable"),
        }
    };
    testcase.config = testcase.config.with_defaults_from(&format_cfg);

    // what the executor would record: render_output applies the documented transformations
    let rendered = match guard(|| testcase.render_output(&raw).map(|c| c.to_vec())) {
        Ok(Ok(r)) => r,
        Ok(Err(e)) => return V::fail(format!("render_output failed: {e:#}")),
        Err(p) => return V::fail(format!("render_output crashed: {p}")),
    };
    let output = Output {
        stdout: rendered.clone().into(),
        stderr: vec![].into(),
        exit_code: ExitStatus::Code(c.code as i32),
    };
    let result = match guard(|| testcase.validate(&output)) {
        Ok(r) => r,
        Err(p) => return V::fail(format!("validate crashed: {p}")),
    };
    let was_ok = result.is_ok();
    let outcome = Outcome {
        location: None,
        output: output.clone(),
        testcase: testcase.clone(),
        format: if c.cram { ParserType::Cram } else { ParserType::Markdown },
        escaping: escaper.clone(),
        result,
    };
    // target format
    let target_cram = if c.mode == 2 { !c.cram } else { c.cram };
    let generated = guard(|| -> anyhow::Result<String> {
        match c.mode {
            0 | 2 => {
                if target_cram {
                    CramTestCaseGenerator::default().generate_testcases(&[&outcome])
                } else {
                    MarkdownTestCaseGenerator::default().generate_testcases(&[&outcome])
                }
            }
            _ => {
                if c.cram {
                    CramUpdateGenerator::default().generate_update(&original_doc, &[&outcome])
                } else {
                    MarkdownUpdateGenerator::default().generate_update(&original_doc, &[&outcome])
                }
            }
        }
    });
    let classes = classes_of(&c.lines);
    let nontrivial = !classes.is_empty();
    let mut v = V::pass()
        .nt(nontrivial)
        .label(["create", "update", "convert"][c.mode as usize])
        .label(if target_cram { "to_cram" } else { "to_markdown" })
        .label(if c.ascii { "ascii" } else { "unicode" })
        .label_if(was_ok, "prior_test_passed")
        .labels(&classes);

    let collision = syntax_collision(c, &rendered);
    let classify = |msg: String| -> V {
        if let Some(kind) = collision {
            return match kind {
                "modifier" => known_or_fail("output-line-reads-as-modifier", msg),
                "exit_code" => known_or_fail("output-line-reads-as-exit-code", msg),
                _ => known_or_fail("output-line-reads-as-command", msg),
            };
        }
        if target_cram && rendered_ends_blank(&rendered) {
            return known_or_fail("cram-generator-trims-tailing-blank-lines", msg);
        }
        V::fail(msg)
    };

    let generated = match generated {
        Err(p) => return V::fail(format!("generator crashed: {p}")),
        Ok(Err(e)) => return classify(format!("generation failed: {e:#}")),
        Ok(Ok(g)) => g,
    };
    let tests = match parse_fmt(target_cram, &generated) {
        Ok(t) => t,
        Err(e) => return classify(format!("{e}\ngenerated:\n{generated}")),
    };
    if tests.len() != 1 {
        return classify(format!("{} tests in the generated document instead of 1\ngenerated:\n{generated}", tests.len()));
    }
    let t = &tests[0];
    if t.shell_expression != shell_expression {
        return classify(format!(
            "shell expression {:?} instead of {:?}\ngenerated:\n{generated}",
            t.shell_expression, shell_expression
        ));
    }
    // the output was recorded under the source configuration; a conversion keeps it via inline config
    let mut target = t.clone();
    if c.mode == 2 && target_cram {
        // Markdown -> Cram: Cram has no inline configuration; the recorded stream is what it is
        target.config.output_stream = Some(OutputStreamControl::Stdout);
    }
    match guard(|| target.validate(&output)) {
        Err(p) => V::fail(format!("validate crashed: {p}")),
        Ok(Ok(())) => {
            v = v.label("passes_against_own_output");
            v
        }
        Ok(Err(_)) if c.mode == 2 && was_ok => {
            // converting a *passing* test keeps its expectations; the two formats use different
            // glob flavours, the property only speaks about blocks written for failing tests
            v.unasserted = true;
            v.label("converted_passing_test_unasserted")
        }
        Ok(Err(err)) => {
            let msg = format!(
                "the generated test does not pass against the output it was generated from: {}\noutput: {:?} exit {}\ngenerated:\n{generated}",
                describe(&err),
                lossy(&rendered),
                c.code
            );
            // conversion keeps matched glob expectations although the two formats implement
            // different glob flavours (known finding)
            if c.mode == 2 && t.expectations.iter().any(|e| e.unmake().0 == "glob") {
                return known_or_fail("convert-keeps-glob-expectations-across-flavours", msg);
            }
            // update keeps matched quantified expectations: the greedy matcher may be incomplete
            // on the block update itself wrote (known finding); asserted where R-det holds
            if c.mode != 0 && !t.expectations.is_empty() {
                let lines = split_lines(&rendered);
                let quants: Vec<u8> = t
                    .expectations
                    .iter()
                    .map(|e| match (e.optional, e.multiline) {
                        (false, false) => 0,
                        (true, false) => 1,
                        (true, true) => 2,
                        (false, true) => 3,
                    })
                    .collect();
                let exps = t.expectations.clone();
                let m = |e: usize, l: usize| exps[e].matches(lines[l]);
                let (det, _) = r_det(&quants, lines.len(), &m);
                if !det {
                    return known_or_fail("update-rewrites-into-nondeterministic-expectations", msg);
                }
            }
            classify(msg)
        }
    }
}

fn rendered_ends_blank(rendered: &[u8]) -> bool {
    let lines = split_lines(rendered);
    match lines.last() {
        None => false,
        Some(l) => {
            let content = l.strip_suffix(b"\n").unwrap_or(l);
            content.iter().all(|b| *b == b' ' || *b == b'\t') || content.ends_with(b" ") || content.ends_with(b"\t")
        }
    }
}

fn describe(e: &scrut::testcase::TestCaseError) -> String {
    use scrut::testcase::TestCaseError::*;
    match e {
        MalformedOutput(d) => format!("MalformedOutput {d:?}"),
        InvalidExitCode { actual, expected } => format!("InvalidExitCode actual {actual} expected {expected}"),
        InternalError(e) => format!("InternalError {e}"),
        Timeout => "Timeout".into(),
        Skipped => "Skipped".into(),
    }
}

// ---------------------------------------------------------------------------
// end to end: scrut create ... | scrut test, scrut update --replace -y then scrut test

#[derive(Clone, Debug, Serialize, Deserialize)]
pub struct E2eCase {
    #[serde(with = "hexlines")]
    pub lines: Vec<Vec<u8>>,
    pub final_lf: bool,
    pub code: u8,
    pub cram: bool,
    pub update: bool,
}

fn e2e_strategy() -> BoxedStrategy<E2eCase> {
    (vec(line_strategy(), 0..5), proptest::bool::weighted(0.8), prop_oneof![3 => Just(0u8), 1 => 1u8..=255], any::<bool>(), any::<bool>())
        .prop_map(|(lines, final_lf, code, cram, update)| E2eCase {
            lines,
            final_lf,
            code: if code == 80 { 81 } else { code },
            cram,
            update,
        })
        .boxed()
}

fn check_e2e(c: &E2eCase) -> V {
    let dir = match CaseDir::new("C09") {
        Ok(d) => d,
        Err(e) => inconclusive(&format!("scratch: {e}")),
    };
    let gc = GenCase {
        lines: c.lines.clone(),
        final_lf: c.final_lf,
        code: c.code,
        cram: c.cram,
        ascii: c.cram,
        cmd: vec![],
        mode: 0,
        prior: vec![],
        prior_code: None,
    };
    let payload = raw_output(&gc);
    let pf = dir.path().join("payload.bin");
    std::fs::write(&pf, &payload).ok();
    let command = format!("cat '{}'; (exit {})", pf.display(), c.code);
    let ext = if c.cram { "t" } else { "md" };
    let doc_path = dir.path().join(format!("doc.{ext}"));
    let classes = classes_of(&c.lines);
    let v = V::pass()
        .nt(!classes.is_empty())
        .label(if c.update { "update" } else { "create" })
        .label(if c.cram { "cram" } else { "markdown" })
        .labels(&classes);
    // what scrut records (CRLF translation in Markdown mode)
    let rendered: Vec<u8> = if c.cram { payload.clone() } else { scrut::newline::replace_crlf(&payload).to_vec() };
    let collision = syntax_collision(&gc, &rendered);
    let classify = |msg: String| -> V {
        if let Some(kind) = collision {
            return match kind {
                "modifier" => known_or_fail("output-line-reads-as-modifier", msg),
                "exit_code" => known_or_fail("output-line-reads-as-exit-code", msg),
                _ => known_or_fail("output-line-reads-as-command", msg),
            };
        }
        if c.cram && rendered_ends_blank(&rendered) {
            return known_or_fail("cram-generator-trims-tailing-blank-lines", msg);
        }
        V::fail(msg)
    };
    if c.update {
        // a document with a wrong expectation, then `scrut update --replace --assume-yes`
        let doc = if c.cram {
            format!("a title\n  $ {command}\n  outdated expectation\n")
        } else {
            format!("# a title\n\n```scrut\n$ {command}\noutdated expectation\n```\n")
        };
        std::fs::write(&doc_path, &doc).ok();
        let r = match run_scrut(&dir, &["update", "--replace", "--assume-yes", "--no-color", doc_path.to_str().unwrap()], 60) {
            Ok(r) => r,
            Err(e) => inconclusive(&format!("scrut update: {e}")),
        };
        if r.code != Some(0) {
            return classify(format!("scrut update exits {:?}: {}", r.code, truncate(&r.stderr, 600)));
        }
    } else {
        let fmt = if c.cram { "cram" } else { "markdown" };
        let r = match run_scrut(&dir, &["create", "--no-color", "--format", fmt, "--output", doc_path.to_str().unwrap(), "--", &command], 60) {
            Ok(r) => r,
            Err(e) => inconclusive(&format!("scrut create: {e}")),
        };
        if r.code != Some(0) {
            return classify(format!("scrut create exits {:?}: {}", r.code, truncate(&r.stderr, 600)));
        }
    }
    let written = std::fs::read(&doc_path).unwrap_or_default();
    let r = match run_scrut(&dir, &["test", "-r", "json", "--no-color", doc_path.to_str().unwrap()], 60) {
        Ok(r) => r,
        Err(e) => inconclusive(&format!("scrut test: {e}")),
    };
    let kinds = json_result_kinds(&r.stdout).unwrap_or_default();
    if r.code == Some(0) && kinds == vec!["success".to_string()] {
        v
    } else {
        classify(format!(
            "the document scrut wrote does not pass: exit {:?}, kinds {:?}\noutput bytes: {:?}\nwritten document:\n{}\nstderr: {}",
            r.code,
            kinds,
            lossy(&payload),
            lossy(&written),
            truncate(&r.stderr, 400)
        ))
    }
}

pub fn property() -> Property {
    Property {
        id: "C09",
        assumptions: vec![
            "library pipeline = the one in create.rs / update.rs rebuilt from public API: render_output -> validate -> Outcome -> generate_testcases / generate_update -> parser of the target format -> validate against the same output",
            "update mode: the final validate is asserted only where the rewritten expectation list is R-det-deterministic for the output (greedy matcher, known finding otherwise)",
            "output_stream is the format default (the property quantifies over outputs, exit codes, formats and escapers)",
        ],
        parts: vec![
            Box::new(PropPart::<GenCase> {
                name: "library",
                rule: "G-bytes output lines from labelled classes (modifier / exit-code / command look-alikes, fences, blank and blank-only lines, backslash sequences, control bytes, invalid UTF-8, non-ASCII, CR) with or without final newline x exit code x {Markdown, Cram} x {ascii, unicode} x {create, update with prior expectations, convert}. Non-trivial: the output has a line of a collision class or a non-printable byte",
                quick: 60_000,
                thorough: 5_000_000,
                max_workers: 0,
                strategy: Box::new(|_| case_strategy()),
                check: Box::new(check_case),
            }),
            Box::new(PropPart::<E2eCase> {
                name: "e2e",
                rule: "`scrut create -- 'cat payload; (exit N)'` then `scrut test`, and `scrut update --replace --assume-yes` on an outdated document then `scrut test`; payload from G-bytes. Non-trivial as above",
                quick: 300,
                thorough: 3_000,
                max_workers: 12,
                strategy: Box::new(|_| e2e_strategy()),
                check: Box::new(check_e2e),
            }),
        ],
    }
}
