//! C13: commands run verbatim; output bytes and exit codes captured exactly, per test.

use proptest::collection::vec;
use proptest::prelude::*;
use serde::{Deserialize, Serialize};

use crate::engine::*;
use crate::execchild::*;
use crate::proc::*;

#[derive(Clone, Debug, Serialize, Deserialize)]
pub struct Payload {
    /// 0 text lines, 1 CRLF lines, 2 binary, 3 text without final newline, 4 marker look-alikes,
    /// 5 SGR coloured text, 6 empty, 7 lone CR / CR CR LF mixtures
    pub kind: u8,
    pub len: u32,
}

impl Payload {
    pub fn bytes(&self) -> Vec<u8> {
        let n = self.len as usize;
        let mut out = Vec::with_capacity(n + 64);
        let mut i = 0usize;
        match self.kind {
            0 | 3 => {
                while out.len() < n {
                    out.extend_from_slice(format!("line {i} of text\n").as_bytes());
                    i += 1;
                }
                if self.kind == 3 {
                    out.extend_from_slice(b"unterminated last line");
                }
            }
            1 => {
                while out.len() < n {
                    out.extend_from_slice(format!("crlf line {i}\r\n").as_bytes());
                    i += 1;
                }
            }
            2 => {
                while out.len() < n {
                    out.push((i % 256) as u8);
                    if i % 97 == 0 {
                        out.extend_from_slice(b"\r\n");
                    }
                    i += 1;
                }
            }
            4 => {
                out.extend_from_slice(b"{persist_state} {shell_expression} {excluded_variables}\n");
                out.extend_from_slice(b"prefix ~~~~~~~~EXEC but not a divider\n");
                out.extend_from_slice(b"__SCRUT_TEMP_STATE_PATH $? code\n");
            }
            5 => {
                while out.len() < n {
                    out.extend_from_slice(format!("\x1b[1;31mred {i}\x1b[0m plain\n").as_bytes());
                    i += 1;
                }
            }
            6 => {}
            _ => {
                while out.len() < n {
                    out.extend_from_slice(b"a\rb\r\r\nc\r\n\rd\n");
                }
            }
        }
        out
    }
    fn printable_with_sgr_only(&self) -> bool {
        matches!(self.kind, 0 | 5 | 6)
    }
}

#[derive(Clone, Debug, Serialize, Deserialize)]
pub struct T13 {
    /// (stream 1 = stdout / 2 = stderr, payload index)
    pub chunks: Vec<(u8, u8)>,
    pub exit: u8,
    /// `printf '%s' '<text>'` instead of chunks
    pub literal: Option<String>,
}

#[derive(Clone, Debug, Serialize, Deserialize)]
pub struct Case13 {
    pub script: bool,
    pub tests: Vec<T13>,
    pub output_stream: u8,
    pub keep_crlf: Option<bool>,
    pub strip_ansi: bool,
    pub payloads: Vec<Payload>,
}

const LITERALS: &[&str] = &[
    "{persist_state}",
    "{shell_expression}",
    "{excluded_variables}|x",
    "{name} and {state_directory}",
    "[ {persist_state} -eq 1 ] && echo yes",
    "~~~~~~~~EXECDIVIDER::abc::0::0",
    "$? is not expanded here",
    "__SCRUT_TEMP_STATE_PATH",
    "plain {braces} text",
    "trap __scrut_persist_state EXIT",
];

/// reference CR LF folding: one pass, every `\r\n` becomes `\n`
pub fn fold_crlf(b: &[u8]) -> Vec<u8> {
    let mut out = Vec::with_capacity(b.len());
    let mut i = 0;
    while i < b.len() {
        if b[i] == b'\r' && i + 1 < b.len() && b[i + 1] == b'\n' {
            i += 1;
            continue;
        }
        out.push(b[i]);
        i += 1;
    }
    out
}

/// reference SGR stripping (only sequences the generator produces: ESC [ digits ; ... m)
fn strip_sgr(b: &[u8]) -> Vec<u8> {
    let mut out = vec![];
    let mut i = 0;
    while i < b.len() {
        if b[i] == 0x1b && i + 1 < b.len() && b[i + 1] == b'[' {
            let mut j = i + 2;
            while j < b.len() && (b[j].is_ascii_digit() || b[j] == b';') {
                j += 1;
            }
            if j < b.len() && b[j] == b'm' {
                i = j + 1;
                continue;
            }
        }
        out.push(b[i]);
        i += 1;
    }
    out
}

fn case_strategy() -> BoxedStrategy<Case13> {
    let payload = prop_oneof![
        10 => (0u8..8, prop_oneof![Just(0u32), 1u32..200, 200u32..5000]).prop_map(|(kind, len)| Payload { kind, len }),
        2 => (0u8..4, 65_536u32..300_000).prop_map(|(kind, len)| Payload { kind, len }),
        1 => (0u8..3, 1_000_000u32..4_000_000).prop_map(|(kind, len)| Payload { kind, len }),
    ];
    let test = (
        vec((1u8..3, any::<u8>()), 0..4),
        prop_oneof![4 => Just(0u8), 1 => Just(1u8), 1 => Just(2u8), 1 => any::<u8>()],
        proptest::option::weighted(0.25, proptest::sample::select(LITERALS.to_vec()).prop_map(String::from)),
    )
        .prop_map(|(chunks, exit, literal)| T13 {
            chunks,
            exit: if exit == 80 { 81 } else { exit },
            literal,
        });
    (
        any::<bool>(),
        vec(test, 1..4),
        1u8..4,
        proptest::option::of(any::<bool>()),
        proptest::bool::weighted(0.25),
        vec(payload, 1..4),
    )
        .prop_map(|(script, tests, output_stream, keep_crlf, strip_ansi, payloads)| Case13 {
            script,
            tests,
            output_stream,
            keep_crlf,
            strip_ansi,
            payloads,
        })
        .boxed()
}

fn check_case(c: &Case13) -> V {
    let dir = match CaseDir::new("C13") {
        Ok(d) => d,
        Err(e) => inconclusive(&format!("scratch: {e}")),
    };
    let work = dir.path().join("work");
    std::fs::create_dir_all(&work).ok();
    let payload_bytes: Vec<Vec<u8>> = c.payloads.iter().map(|p| p.bytes()).collect();
    for (i, b) in payload_bytes.iter().enumerate() {
        std::fs::write(dir.path().join(format!("p{i}")), b).ok();
    }
    let pidx = |i: u8| (i as usize) % payload_bytes.len();
    let mut tests = vec![];
    for t in &c.tests {
        let mut parts: Vec<String> = vec![];
        if let Some(text) = &t.literal {
            parts.push(format!("printf '%s' '{text}'"));
        } else {
            for (stream, p) in &t.chunks {
                let f = dir.path().join(format!("p{}", pidx(*p)));
                parts.push(if *stream == 2 {
                    format!("cat '{}' >&2", f.display())
                } else {
                    format!("cat '{}'", f.display())
                });
            }
        }
        parts.push(format!("(exit {})", t.exit));
        tests.push(ExecTest {
            expr: parts.join("; "),
            output_stream: Some(c.output_stream),
            keep_crlf: c.keep_crlf,
            strip_ansi: if c.strip_ansi { Some(true) } else { None },
            line: 1,
            ..Default::default()
        });
    }
    let case = ExecCase {
        executor: if c.script { "script".into() } else { "stateful".into() },
        work: work.to_string_lossy().to_string(),
        tmp: dir.tmp().to_string_lossy().to_string(),
        total_timeout_ms: Some(120_000),
        tests,
        ..Default::default()
    };
    let total: usize = c
        .tests
        .iter()
        .map(|t| t.chunks.iter().map(|(_, p)| payload_bytes[pidx(*p)].len()).sum::<usize>())
        .sum();
    let has_literal = c.tests.iter().any(|t| t.literal.is_some());
    let interesting_payload = c.tests.iter().any(|t| {
        t.literal.is_none() && t.chunks.iter().any(|(_, p)| matches!(c.payloads[pidx(*p)].kind, 1 | 2 | 3 | 4 | 7))
    });
    let mut v = V::pass()
        .nt(has_literal || interesting_payload || total >= 65_536)
        .label(if c.script { "script_executor" } else { "stateful_executor" })
        .label(["", "stdout", "stderr", "combined"][c.output_stream as usize])
        .label_if(has_literal, "literal_text_command")
        .label_if(total >= 65_536, "at_least_64KiB")
        .label_if(total >= 1_000_000, "at_least_1MB")
        .label_if(c.strip_ansi, "strip_ansi")
        .label_if(c.keep_crlf == Some(true), "keep_crlf");

    // root-cause signature: a divider look-alike in the output of the single-script executor
    let divider_lookalike = c.script
        && c.tests.iter().any(|t| t.literal.as_deref().map(|l| l.contains("~~~~~~~~EXECDIVIDER::")).unwrap_or(false));
    let classify = |msg: String| -> V {
        if divider_lookalike {
            known_or_fail("script-executor-divider-lookalike-in-output", msg)
        } else {
            V::fail(msg)
        }
    };

    let result = match run_child(&dir, &case, 180) {
        ChildOutcome::Crashed(m) => return classify(format!("executor crashed: {m}\ncommands: {:?}", case.tests.iter().map(|t| &t.expr).collect::<Vec<_>>())),
        ChildOutcome::Done(r) => r,
    };
    let cmds = || format!("executor={} commands={:?} config: stream={} keep_crlf={:?} strip_ansi={}", case.executor, case.tests.iter().map(|t| &t.expr).collect::<Vec<_>>(), c.output_stream, c.keep_crlf, c.strip_ansi);
    if let Some(e) = &result.error {
        return classify(format!("execute_all failed: {e}\n{}", cmds()));
    }
    if result.outputs.len() != c.tests.len() {
        return classify(format!("{} outputs for {} tests\n{}", result.outputs.len(), c.tests.len(), cmds()));
    }
    for (i, (t, o)) in c.tests.iter().zip(result.outputs.iter()).enumerate() {
        let (mut exp_out, mut exp_err) = (vec![], vec![]);
        let mut assert_bytes = true;
        if let Some(text) = &t.literal {
            exp_out.extend_from_slice(text.as_bytes());
        } else {
            for (stream, p) in &t.chunks {
                let b = &payload_bytes[pidx(*p)];
                if c.strip_ansi && !c.payloads[pidx(*p)].printable_with_sgr_only() {
                    assert_bytes = false; // what else the stripping library removes is not specified
                }
                if *stream == 2 && c.output_stream != 3 {
                    exp_err.extend_from_slice(b);
                } else {
                    exp_out.extend_from_slice(b);
                }
            }
        }
        let transform = |b: Vec<u8>| -> Vec<u8> {
            let b = if c.keep_crlf == Some(true) { b } else { fold_crlf(&b) };
            if c.strip_ansi {
                strip_sgr(&b)
            } else {
                b
            }
        };
        let (exp_out, exp_err) = (transform(exp_out), transform(exp_err));
        if o.status != format!("code:{}", t.exit) {
            return classify(format!("test {i}: recorded status {} but the command exits with {}\n{}", o.status, t.exit, cmds()));
        }
        if !assert_bytes {
            v.unasserted = true;
            continue;
        }
        let (got_out, got_err) = (o.stdout_bytes(), o.stderr_bytes());
        if got_out != exp_out {
            return classify(format!(
                "test {i}: recorded stdout differs from what the command wrote: {} bytes recorded, {} expected; first difference at byte {:?}; recorded starts {:?}, expected starts {:?}\n{}",
                got_out.len(),
                exp_out.len(),
                got_out.iter().zip(exp_out.iter()).position(|(a, b)| a != b),
                truncate(&got_out, 120),
                truncate(&exp_out, 120),
                cmds()
            ));
        }
        if got_err != exp_err {
            return classify(format!(
                "test {i}: recorded stderr differs: {} bytes recorded, {} expected; recorded starts {:?}, expected starts {:?}\n{}",
                got_err.len(),
                exp_err.len(),
                truncate(&got_err, 120),
                truncate(&exp_err, 120),
                cmds()
            ));
        }
    }
    v
}

// ---------------------------------------------------------------------------
// replace_crlf against the reference, any size

#[derive(Clone, Debug, Serialize, Deserialize)]
pub struct CrlfCase {
    /// segments: (kind 0 text, 1 CRLF, 2 lone CR, 3 CR CR LF, 4 LF, 5 binary byte), repeat count
    pub segments: Vec<(u8, u32)>,
}

fn crlf_input(c: &CrlfCase) -> Vec<u8> {
    let mut out = vec![];
    for (kind, n) in &c.segments {
        for i in 0..*n {
            match kind {
                0 => out.extend_from_slice(b"some text"),
                1 => out.extend_from_slice(b"\r\n"),
                2 => out.push(b'\r'),
                3 => out.extend_from_slice(b"\r\r\n"),
                4 => out.push(b'\n'),
                _ => out.push((i % 251) as u8),
            }
        }
    }
    out
}

fn check_crlf(c: &CrlfCase) -> V {
    let input = crlf_input(c);
    let pairs = input.windows(2).filter(|w| w == b"\r\n").count();
    let expected = fold_crlf(&input);
    let v = V::pass()
        .nt(pairs >= 2)
        .label(if pairs >= 50_000 { "at_least_50k_pairs" } else if pairs >= 1000 { "at_least_1k_pairs" } else { "small" });
    if pairs <= 3000 {
        return match guard(|| scrut::newline::replace_crlf(&input).to_vec()) {
            Err(p) => V::fail(format!("replace_crlf crashed: {p}")),
            Ok(got) if got == expected => v,
            Ok(got) => V::fail(format!(
                "replace_crlf differs from one-pass folding: {} bytes in, {} out, {} expected",
                input.len(),
                got.len(),
                expected.len()
            )),
        };
    }
    // many pairs: on the main thread of a child process (a crashed child is the violation)
    let dir = match CaseDir::new("C13") {
        Ok(d) => d,
        Err(e) => inconclusive(&format!("scratch: {e}")),
    };
    let f = dir.path().join("crlf.bin");
    std::fs::write(&f, &input).ok();
    let case = ExecCase {
        mode: "crlf".into(),
        crlf_input: f.to_string_lossy().to_string(),
        ..Default::default()
    };
    match run_child(&dir, &case, 600) {
        ChildOutcome::Crashed(m) => V::fail(format!(
            "replace_crlf on {} bytes with {} CR LF pairs kills the process: {m}",
            input.len(),
            pairs
        )),
        ChildOutcome::Done(_) => {
            let got = std::fs::read(format!("{}.out", f.display())).unwrap_or_default();
            if got == expected {
                v
            } else {
                V::fail(format!(
                    "replace_crlf differs from one-pass folding: {} bytes in, {} out, {} expected",
                    input.len(),
                    got.len(),
                    expected.len()
                ))
            }
        }
    }
}

fn crlf_strategy() -> BoxedStrategy<CrlfCase> {
    let seg = prop_oneof![
        8 => (0u8..6, 0u32..20),
        2 => (0u8..6, 20u32..3000),
    ];
    prop_oneof![
        20 => vec(seg, 0..8).prop_map(|segments| CrlfCase { segments }),
        // outputs of any size: tens / hundreds of thousands of CR LF line endings
        1 => (4_000u32..30_000, 1u32..4).prop_map(|(n, reps)| CrlfCase {
            segments: (0..reps).flat_map(|_| vec![(0u8, 1u32), (1u8, n)]).collect(),
        }),
        1 => (100_000u32..400_000).prop_map(|n| CrlfCase { segments: vec![(1u8, n)] }),
    ]
    .boxed()
}

pub fn property() -> Property {
    Property {
        id: "C13",
        assumptions: vec![
            "payload files are written by sequential `cat` commands, so the write order on a merged stream is defined",
            "with strip_ansi_escaping set, bytes are asserted only for printable payloads whose escape sequences are SGR (what else the stripping library removes is not specified)",
            "executors run through the scrut library in a child process (Markdown: StatefulExecutor+BashRunner, Cram: BashScriptExecutor with a consistent config)",
        ],
        parts: vec![
            Box::new(PropPart::<Case13> {
                name: "executors",
                rule: "1..3 test cases, each a list of (stream, payload file) chunks emitted by cat / cat >&2 or a literal-text command (printf '%s' '<text>' with template placeholders, divider look-alikes, $?), ending in (exit N); payload classes: text, CRLF, binary, unterminated last line, marker text, SGR colours, empty, CR mixtures, 64 KiB..4 MB; output_stream x keep_crlf x strip_ansi; both executors. Non-trivial: literal-text command, CRLF/binary/unterminated/marker payload, or >= 64 KiB",
                quick: 1_500,
                thorough: 20_000,
                max_workers: 12,
                strategy: Box::new(|_| case_strategy()),
                check: Box::new(check_case),
            }),
            Box::new(PropPart::<CrlfCase> {
                name: "replace_crlf",
                rule: "byte strings assembled from text, CR LF, lone CR, CR CR LF, LF and binary segments, up to 400 000 CR LF pairs; scrut::newline::replace_crlf vs. one-pass reference folding; > 3000 pairs run on the main thread of a child process. Non-trivial: >= 2 CR LF pairs",
                quick: 3_000,
                thorough: 100_000,
                max_workers: 8,
                strategy: Box::new(|_| crlf_strategy()),
                check: Box::new(check_crlf),
            }),
        ],
    }
}
