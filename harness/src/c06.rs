//! C06: Markdown: every scrut block becomes exactly one test; nothing is dropped.

use std::sync::Arc;

use scrut::config::{DocumentConfig, TestCaseConfig};
use scrut::expectation::ExpectationMaker;
use scrut::parsers::markdown::MarkdownParser;
use scrut::parsers::parser::Parser;
use scrut::rules::registry::RuleRegistry;
use scrut::testcase::TestCase;
use serde::{Deserialize, Serialize};

use crate::c08::r_expect;
use crate::docgen::*;
use crate::engine::*;

#[derive(Clone, Debug, Serialize, Deserialize)]
pub struct DocCase {
    pub doc: Doc,
}

pub fn md_parse(text: &str) -> Result<anyhow::Result<(DocumentConfig, Vec<TestCase>)>, String> {
    guard(|| {
        MarkdownParser::new(
            Arc::new(ExpectationMaker::new(RuleRegistry::default())),
            &["scrut"],
            None,
        )
        .parse(text)
    })
}

/// compare one parsed test with the constructed one; `with_title`: also the title
pub fn compare_test(got: &TestCase, exp: &ExpectedTest, with_title: bool) -> Result<(), String> {
    if got.shell_expression != exp.command {
        return Err(format!(
            "shell expression {:?}, written {:?}",
            got.shell_expression, exp.command
        ));
    }
    let got_lines: Vec<String> = got.expectations.iter().map(|e| e.original_string()).collect();
    // lines before the `$` line: read as expectations today; the documentation is silent, so a
    // reading that leaves them out is accepted as well (the command, the lines after it, exit
    // code, config and line number are asserted either way)
    let exp_after: Vec<String> = exp.expectations[exp.pre_count..].to_vec();
    if exp.pre_count > 0 && got_lines == exp_after {
        let narrowed = ExpectedTest { expectations: exp_after, pre_count: 0, ..exp.clone() };
        return compare_test(got, &narrowed, with_title);
    }
    if got_lines != exp.expectations {
        return Err(format!(
            "expectation lines {:?}, written {:?}",
            got_lines, exp.expectations
        ));
    }
    for (e, line) in got.expectations.iter().zip(exp.expectations.iter()) {
        let (_, kind, quant) = r_expect(line);
        let (gk, _, opt, multi) = e.unmake();
        let q = match (opt, multi) {
            (false, false) => "",
            (true, false) => "?",
            (true, true) => "*",
            (false, true) => "+",
        };
        if gk != kind || q != quant {
            return Err(format!(
                "expectation line {line:?} read as kind {gk} quantifier {q:?}, grammar says {kind} {quant:?}"
            ));
        }
        crate::c08::expression_as_written(e, line)?;
    }
    if got.exit_code != exp.exit_code {
        return Err(format!("exit code {:?}, written {:?}", got.exit_code, exp.exit_code));
    }
    if got.config != exp.config {
        return Err(format!("config {}, written {}", got.config, exp.config));
    }
    if got.line_number != exp.line_number {
        return Err(format!(
            "line number {} but the `$` line is line {}",
            got.line_number, exp.line_number
        ));
    }
    if with_title {
        if let TitleExpect::Exactly(t) = &exp.title {
            if &got.title != t {
                return Err(format!("title {:?}, nearest preceding heading/paragraph is {:?}", got.title, t));
            }
        }
    }
    Ok(())
}

/// invariant for any document that parses: line numbers point at the `$` line and ascend
pub fn line_number_invariant(text: &str, tests: &[TestCase]) -> Result<(), String> {
    let lines: Vec<&str> = text.lines().collect();
    let mut last = 0usize;
    for (i, t) in tests.iter().enumerate() {
        let n = t.line_number;
        if n == 0 || n > lines.len() {
            return Err(format!("test {i}: line number {n} outside the document"));
        }
        let first = t.shell_expression.split('\n').next().unwrap_or("");
        // (a carriage return at the very end of the text may or may not count as line ending)
        if lines[n - 1].trim_end_matches('\r') != format!("$ {first}").trim_end_matches('\r') {
            return Err(format!(
                "test {i}: line {n} is {:?}, not the `$` line of {:?}",
                lines[n - 1],
                first
            ));
        }
        if n <= last {
            return Err(format!("test {i}: line numbers do not ascend ({n} after {last})"));
        }
        last = n;
    }
    Ok(())
}

fn features(doc: &Doc) -> (usize, bool) {
    let scruts = doc.blocks.iter().filter(|b| matches!(b, Blk::Scrut(_))).count();
    let feature = doc.front.is_some()
        || doc.crlf
        || !matches!(doc.tail, Tail::None)
        || doc.blocks.iter().any(|b| match b {
            Blk::Foreign { .. } => true,
            Blk::Prose { lines } => lines.iter().any(|l| l.starts_with('`')),
            Blk::Scrut(s) => s.cfg.is_some(),
            Blk::Heading { .. } => false,
            _ => true,
        });
    (scruts, feature)
}

/// known root causes, by the constructs present in the document
fn classify(doc: &Doc, msg: String) -> V {
    let has = |f: &dyn Fn(&Blk) -> bool| doc.blocks.iter().any(|b| f(b));
    if has(&|b| matches!(b, Blk::ScrutLangTrailingBlank(_))) {
        return known_or_fail("md-language-followed-by-blank-is-not-scrut", msg);
    }
    V::fail(msg)
}

pub fn check_core(c: &DocCase) -> V {
    let r = render(&c.doc);
    let (scruts, feature) = features(&c.doc);
    let v = V::pass()
        .nt(scruts >= 2 && feature)
        .label_if(c.doc.front.is_some(), "front_matter")
        .label_if(c.doc.crlf, "crlf")
        .label_if(
            c.doc.blocks.iter().any(|b| matches!(b, Blk::Prose { lines } if lines.iter().any(|l| l.starts_with('`')))),
            "backtick_leading_prose",
        )
        .label_if(c.doc.blocks.iter().any(|b| matches!(b, Blk::Foreign { .. })), "foreign_block")
        .label_if(c.doc.blocks.iter().any(|b| matches!(b, Blk::EmptyScrut { .. } | Blk::CommentOnlyScrut { .. } | Blk::ExitOnlyScrut { .. })), "scrut_block_without_command")
        .label_if(c.doc.blocks.iter().any(|b| matches!(b, Blk::ScrutCfgTrailingBlank(_) | Blk::ScrutLangTrailingBlank(_))), "trailing_blank_on_fence_line");
    let (cfg, tests) = match md_parse(&r.text) {
        Err(p) => return classify(&c.doc, format!("parser crashed: {p}\ndocument:\n{}", r.text)),
        Ok(Err(e)) => {
            // an empty front matter (`---` `---`) may be rejected
            if c.doc.front.as_ref().map(|f| f.empty).unwrap_or(false) {
                return v.label("empty_front_matter_rejected");
            }
            return classify(
                &c.doc,
                format!("document of documented constructs is rejected: {e:#}\ndocument:\n{}", r.text),
            );
        }
        Ok(Ok(x)) => x,
    };
    if cfg != r.doc_config {
        return classify(&c.doc, format!("document config {cfg} instead of {}\ndocument:\n{}", r.doc_config, r.text));
    }
    if tests.len() != r.tests.len() {
        return classify(
            &c.doc,
            format!(
                "{} tests parsed, the document has {} scrut blocks with a command (parsed commands: {:?})\ndocument:\n{}",
                tests.len(),
                r.tests.len(),
                tests.iter().map(|t| t.shell_expression.clone()).collect::<Vec<_>>(),
                r.text
            ),
        );
    }
    for (i, (g, e)) in tests.iter().zip(r.tests.iter()).enumerate() {
        if let Err(m) = compare_test(g, e, true) {
            return classify(&c.doc, format!("test {i}: {m}\ndocument:\n{}", r.text));
        }
    }
    if let Err(m) = line_number_invariant(&r.text, &tests) {
        return classify(&c.doc, format!("{m}\ndocument:\n{}", r.text));
    }
    v
}

pub fn check_extended(c: &DocCase) -> V {
    let r = render(&c.doc);
    let (scruts, _) = features(&c.doc);
    let v = V::pass()
        .nt(scruts >= 2)
        .label(match &c.doc.tail {
            Tail::None => "malformed_block",
            Tail::TruncateAt(_) => "truncated",
            Tail::UnterminatedForeign { .. } => "unterminated_foreign",
            Tail::UnterminatedScrut(_) => "unterminated_scrut",
            Tail::UnterminatedFrontMatter => "unterminated_front_matter",
        });
    let (_, tests) = match md_parse(&r.text) {
        Err(p) => return classify(&c.doc, format!("parser crashed: {p}\ndocument:\n{}", r.text)),
        Ok(Err(_)) => return v.label("rejected_with_error"),
        Ok(Ok(x)) => x,
    };
    if let Err(m) = line_number_invariant(&r.text, &tests) {
        return classify(&c.doc, format!("{m}\ndocument:\n{}", r.text));
    }
    // every scrut block closed before the first malformed construct is present and intact
    let n_lines = r.lines.len();
    let cut = match c.doc.tail {
        Tail::TruncateAt(_) => n_lines,
        _ => usize::MAX,
    };
    let intact: Vec<&ExpectedTest> = r
        .tests
        .iter()
        .filter(|t| t.closed_at < r.first_malformed_line && t.closed_at < cut)
        .collect();
    if tests.len() < intact.len() {
        return classify(
            &c.doc,
            format!(
                "accepted without error, but only {} tests although {} scrut blocks are closed before the malformed construct\ndocument:\n{}",
                tests.len(),
                intact.len(),
                r.text
            ),
        );
    }
    for (i, e) in intact.iter().enumerate() {
        if let Err(m) = compare_test(&tests[i], e, false) {
            return classify(&c.doc, format!("test {i} (before the malformed construct): {m}\ndocument:\n{}", r.text));
        }
    }
    // blocks after a malformed *block* (not a truncation / unterminated tail) must not be hidden:
    // accepted without error => every constructed test is there
    let only_tail_malformed = !c.doc.blocks.iter().any(|b| b.malformed());
    match &c.doc.tail {
        Tail::None => {
            // malformed blocks in the middle, document accepted: no test may be created by them or hidden
            if tests.len() != r.tests.len() {
                return classify(
                    &c.doc,
                    format!(
                        "accepted without error with {} tests, but the document has {} scrut blocks with a command\ndocument:\n{}",
                        tests.len(),
                        r.tests.len(),
                        r.text
                    ),
                );
            }
        }
        Tail::UnterminatedScrut(_) if only_tail_malformed => {
            // accepted => the unterminated block is read to the end of the document
            if tests.len() != r.tests.len() {
                return classify(
                    &c.doc,
                    format!(
                        "unterminated scrut block accepted without error but {} tests instead of {} (it is neither reported nor read to the end)\ndocument:\n{}",
                        tests.len(),
                        r.tests.len(),
                        r.text
                    ),
                );
            }
            if let Err(m) = compare_test(tests.last().unwrap(), r.tests.last().unwrap(), false) {
                return classify(&c.doc, format!("unterminated scrut block: {m}\ndocument:\n{}", r.text));
            }
        }
        Tail::UnterminatedForeign { .. } | Tail::UnterminatedFrontMatter if only_tail_malformed => {
            if tests.len() != intact.len() {
                return classify(
                    &c.doc,
                    format!(
                        "{} tests, expected exactly the {} before the unterminated construct\ndocument:\n{}",
                        tests.len(),
                        intact.len(),
                        r.text
                    ),
                );
            }
        }
        _ => {}
    }
    v.label("accepted")
}

pub fn property() -> Property {
    Property {
        id: "C06",
        assumptions: vec![
            "documents of documented constructs only (core) must parse; the expected test list is known by construction",
            "titles are asserted only where the documentation is unambiguous: the construct directly before the block (blank lines aside) is a heading or a paragraph whose lines start with a letter, or the block is the first construct of the document",
            "a fence is a line of >= 3 backticks followed by an info string without backticks (CommonMark); prose that merely starts with backticks is prose",
            "front-matter defaults and inline configuration use disjoint keys here (precedence is C16)",
            "malformed documents: Err is always acceptable; if accepted, tests closed before the malformed construct must be intact",
        ],
        parts: vec![
            Box::new(PropPart::<DocCase> {
                name: "core",
                rule: "G-doc core: front-matter, prose (plain / Unicode / backtick-leading / inline code), headings, scrut blocks (fence 3..5, config with 0..2 blanks, comments, multi-line command, body from expectation pool incl. `$ x` `> x` `# x` blank lines, `[n]` anywhere), foreign blocks incl. nested scrut blocks with shorter fence, scrut blocks without command; CRLF and missing final newline variants. Non-trivial: >=2 scrut blocks and >=1 of {foreign block, backtick-leading prose, front-matter, config, CRLF}",
                quick: 120_000,
                thorough: 3_000_000,
                max_workers: 0,
                strategy: Box::new(|_| {
                    use proptest::strategy::Strategy;
                    core_doc(7, false).prop_map(|doc| DocCase { doc }).boxed()
                }),
                check: Box::new(check_core),
            }),
            Box::new(PropPart::<DocCase> {
                name: "extended",
                rule: "G-doc with malformed constructs: truncation at a random line, unterminated foreign / scrut block or front-matter at the end, scrut block without `$`, fenced block without language (also a long fence around a scrut block). Non-trivial: >=2 scrut blocks",
                quick: 80_000,
                thorough: 2_000_000,
                max_workers: 0,
                strategy: Box::new(|_| {
                    use proptest::strategy::Strategy;
                    extended_doc(6).prop_map(|doc| DocCase { doc }).boxed()
                }),
                check: Box::new(check_extended),
            }),
            Box::new(PropPart::<CliCase> {
                name: "cli_crlf",
                rule: "`scrut test -r json` on LF and CR LF twins of generated documents whose tests print here-documents with whitespace-significant lines (trailing blanks, blank-only and empty lines, empty `> ` continuation lines) and expect them verbatim, plus twins with one spoiled expectation: both line-ending variants must give the same verdicts (all pass / exactly the spoiled test fails). Non-trivial: a whitespace-significant line",
                quick: 150,
                thorough: 3_000,
                max_workers: 12,
                strategy: Box::new(|_| cli_strategy()),
                check: Box::new(check_cli),
            }),
            Box::new(PropPart::<MdSoup> {
                name: "soup",
                rule: "arbitrary sequences of Markdown-like lines (fences of any length with and without language / config, unbalanced fences, `$` / `>` / `[n]` lines anywhere, front-matter delimiters, one line in six a lead-in followed by random Unicode text): no crash; if accepted, line numbers point at ascending `$ ` lines, not more tests than `$ ` lines. Non-trivial: >=4 lines",
                quick: 60_000,
                thorough: 2_000_000,
                max_workers: 0,
                strategy: Box::new(|_| soup_strategy()),
                check: Box::new(check_md_soup),
            }),
        ],
    }
}

/// line soup: Markdown-like lines in any order (the same oracle as the byte-level target)
#[derive(Clone, Debug, Serialize, Deserialize)]
pub struct MdSoup {
    pub lines: Vec<String>,
    pub final_newline: bool,
    /// the text ends in a bare carriage return (what is left of a truncated CR LF document)
    #[serde(default)]
    pub final_cr: bool,
}

impl MdSoup {
    pub fn text(&self) -> String {
        let mut text = self.lines.join("\n");
        if self.final_newline && !text.is_empty() {
            text.push('\n');
        } else if self.final_cr {
            text.push('\r');
        }
        text
    }
}

const MD_SOUP: &[&str] = &[
    "```scrut", "```scrut", "```", "```", "````", "`````", "```scrut {timeout: 3s}", "```scrut{detached: true}", "```scrut {", "```bash",
    "``` scrut", "```scrut ", "``` ", "$ echo x", "$ echo y", "$ ", "$", "> y", "out", "[1]", "[2]", "[256]", "", "", "# heading", "text",
    "---", "key: value", "total_timeout: 3s", "defaults: {", "`inline`", "```not a fence`", "~~~", "    $ indented", "x (re)",
    "( (re)", "\\x (esc)", "# comment", "世", "  ", "aé", "\u{a0}```scrut", "- item", "> quote",
];

pub fn soup_strategy() -> proptest::strategy::BoxedStrategy<MdSoup> {
    use proptest::prelude::*;
    let line = prop_oneof![
        5 => proptest::sample::select(MD_SOUP.to_vec()).prop_map(String::from),
        1 => (proptest::sample::select(vec!["", "$ ", "> ", "```", "```scrut ", "# ", "  "]), "\\PC{0,6}")
            .prop_map(|(lead, text)| format!("{lead}{}", text.replace(['\n', '\r'], ""))),
    ];
    // chunks: single lines, or a scrut / foreign block skeleton with soup lines inside
    let chunk = prop_oneof![
        3 => line.clone().prop_map(|l| vec![l]),
        2 => (3usize..6, proptest::collection::vec(line.clone(), 0..3), proptest::bool::weighted(0.85)).prop_map(|(n, inner, close)| {
            let mut v = vec![format!("{}scrut", "`".repeat(n)), "$ echo block".to_string()];
            v.extend(inner);
            if close {
                v.push("`".repeat(n));
            }
            v
        }),
        1 => (3usize..6, proptest::collection::vec(line, 0..3)).prop_map(|(n, inner)| {
            let mut v = vec![format!("{}text", "`".repeat(n))];
            v.extend(inner);
            v.push("`".repeat(n));
            v
        }),
    ];
    (
        proptest::collection::vec(chunk, 0..8).prop_map(|c| c.into_iter().flatten().collect::<Vec<String>>()),
        any::<bool>(),
        proptest::bool::weighted(0.3),
    )
        .prop_map(|(lines, final_newline, final_cr)| MdSoup { lines, final_newline, final_cr })
        .boxed()
}

fn check_md_soup(c: &MdSoup) -> V {
    let text = c.text();
    let parsed = md_parse(&text);
    let accepted = matches!(&parsed, Ok(Ok((_, t))) if !t.is_empty());
    let v = V::pass()
        .nt(c.lines.len() >= 4)
        .label(if accepted { "accepted_with_tests" } else if matches!(parsed, Ok(Ok(_))) { "accepted_without_tests" } else { "rejected" });
    if let Some(m) = crate::fuzz::markdown(text.as_bytes()) {
        return V::fail(format!("{m}\ndocument:\n{text}"));
    }
    if let Ok(Ok((_, tests))) = &parsed {
        // no test out of nothing: every command starts on a `$ ` line inside the text
        let dollar_lines = text.lines().filter(|l| l.starts_with("$ ")).count();
        if tests.len() > dollar_lines {
            return V::fail(format!("{} tests from {} `$ ` lines\ndocument:\n{text}", tests.len(), dollar_lines));
        }
    }
    v
}

// ---------------------------------------------------------------------------
// documents as the command line reads them: LF and CR LF twins of whitespace-significant tests

#[derive(Clone, Debug, Serialize, Deserialize)]
pub struct CliCase {
    /// per test: the lines a here-document prints (and the expectations describe)
    pub tests: Vec<Vec<String>>,
    /// (test, line) of the expectation that is changed in the "must fail" twins
    pub spoil: (u16, u16),
}

const WS_LINES: &[&str] = &["plain", "trailing blank ", "two blanks  ", "   ", "", "tab\t", " leading", "inner  blanks", "ünï ", "x (glob)"];

fn cli_strategy() -> proptest::strategy::BoxedStrategy<CliCase> {
    use proptest::prelude::*;
    (
        proptest::collection::vec(proptest::collection::vec(proptest::sample::select(WS_LINES.to_vec()).prop_map(String::from), 1..5), 1..4),
        (any::<u16>(), any::<u16>()),
    )
        .prop_map(|(tests, spoil)| CliCase { tests, spoil })
        .boxed()
}

fn check_cli(c: &CliCase) -> V {
    use crate::proc::*;
    let dir = match CaseDir::new("C06") {
        Ok(d) => d,
        Err(e) => inconclusive(&format!("scratch: {e}")),
    };
    let st = pick_idx(c.spoil.0, c.tests.len());
    let sl = pick_idx(c.spoil.1, c.tests[st].len());
    let render = |spoiled: bool, eol: &str| -> String {
        let mut lines: Vec<String> = vec!["# whitespace matters".into(), String::new()];
        for (ti, t) in c.tests.iter().enumerate() {
            lines.push(format!("## test {ti}"));
            lines.push(String::new());
            lines.push("```scrut".into());
            lines.push("$ cat <<'EOF'".into());
            for l in t {
                lines.push(format!("> {l}"));
            }
            lines.push("> EOF".into());
            for (li, l) in t.iter().enumerate() {
                // output that looks like a modifier is expected through an explicit `(equal)`
                let e = if l == "x (glob)" { "x (glob) (equal)".to_string() } else { l.clone() };
                lines.push(if spoiled && ti == st && li == sl { format!("{e}spoiled") } else { e });
            }
            lines.push("```".into());
            lines.push(String::new());
        }
        lines.iter().map(|l| format!("{l}{eol}")).collect()
    };
    let files = [("ok-lf.md", false, "\n"), ("ok-crlf.md", false, "\r\n"), ("bad-lf.md", true, "\n"), ("bad-crlf.md", true, "\r\n")];
    let mut expected: Vec<&str> = vec![];
    let mut args: Vec<String> = vec!["test".into(), "-r".into(), "json".into(), "--no-color".into()];
    for (name, spoiled, eol) in files {
        let p = dir.path().join(name);
        std::fs::write(&p, render(spoiled, eol)).ok();
        args.push(p.to_string_lossy().to_string());
        for ti in 0..c.tests.len() {
            expected.push(if spoiled && ti == st { "malformed_output" } else { "success" });
        }
    }
    let argv: Vec<&str> = args.iter().map(|s| s.as_str()).collect();
    let run = match run_scrut(&dir, &argv, 60) {
        Ok(r) => r,
        Err(e) => inconclusive(&format!("scrut test: {e}")),
    };
    let ws = c.tests.iter().flatten().any(|l| l.is_empty() || l.ends_with(' ') || l.ends_with('\t') || l.trim().is_empty());
    let v = V::pass().nt(ws).label_if(ws, "whitespace_significant_line").label_if(c.tests.iter().flatten().any(|l| l.is_empty()), "empty_continuation_line");
    let kinds = match json_result_kinds(&run.stdout) {
        Ok(k) => k,
        Err(e) => return V::fail(format!("no JSON report (exit {:?}): {e}\nstderr: {}\ndocument (LF twin):\n{}", run.code, truncate(&run.stderr, 400), render(false, "\n"))),
    };
    if kinds != expected {
        return V::fail(format!(
            "result kinds of [ok-lf, ok-crlf, bad-lf, bad-crlf] are {:?}, expected {:?}: the CR LF twin must read like the LF document\ndocument (LF twin, test {st} line {sl} is spoiled in the bad twins):\n{}",
            kinds,
            expected,
            render(false, "\n")
        ));
    }
    v
}

#[allow(dead_code)]
fn _unused(_: TestCaseConfig) {}
