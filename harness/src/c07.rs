//! C07: Cram documents: indented `$` blocks become the written tests, in order.

use std::sync::Arc;

use proptest::collection::vec;
use proptest::prelude::*;
use scrut::config::{DocumentConfig, TestCaseConfig};
use scrut::expectation::ExpectationMaker;
use scrut::parsers::cram::CramParser;
use scrut::parsers::parser::Parser;
use scrut::rules::glob_cram::CramGlobRule;
use scrut::rules::registry::RuleRegistry;
use scrut::rules::rule::RuleMaker;
use scrut::testcase::TestCase;
use serde::{Deserialize, Serialize};

use crate::c08::r_expect;
use crate::engine::*;

#[derive(Clone, Debug, Serialize, Deserialize)]
pub struct CramTest {
    pub cmd: Vec<String>,
    pub body: Vec<String>,
    pub exit: Option<(u8, u16)>,
    /// `#` comment lines interleaved into the body at these positions
    pub comments: Vec<(u16, String)>,
}

#[derive(Clone, Debug, Serialize, Deserialize)]
pub enum Item {
    Title(String),
    Blank,
    Comment(String),
    Test(CramTest),
}

#[derive(Clone, Debug, Serialize, Deserialize)]
pub struct CramDoc {
    pub items: Vec<Item>,
    pub crlf: bool,
    pub final_newline: bool,
}

pub fn cram_parse(text: &str) -> Result<anyhow::Result<(DocumentConfig, Vec<TestCase>)>, String> {
    guard(|| {
        let mut registry = RuleRegistry::default();
        registry.register(CramGlobRule::make, &["glob", "gl"]);
        CramParser::new(Arc::new(ExpectationMaker::new(registry)), 2).parse(text)
    })
}

const TITLES: &[&str] = &[
    "A title",
    "Ünï title with `code`",
    " one leading blank",
    "$ unindented dollar",
    "> unindented angle",
    "[1]",
    "text (glob)",
    "- list",
    "trailing blanks  ",
    // non-ASCII at every byte offset of the indentation width
    "世界 title",
    "→ arrow",
    "aé",
    " é after one blank",
    "1€ item",
    "€",
    "é",
    "🙂 emoji title",
    "Élan",
    "\u{a0}\u{a0}$ indented with no-break spaces",
];
const BODY: &[&str] = &[
    "plain output",
    "",
    " ",
    "  two leading blanks",
    "trailing blank ",
    "trailing blanks   ",
    "foo* (glob)",
    "b (?)",
    "any (*)",
    "x|y (re)",
    "\\x1b[1mbold (esc)",
    "no newline (no-eol)",
    "# indented hash is output",
    "> angle after output",
    "[not] exit",
    "[-1]",
    "[+0]",
    "[ 1]",
    "[1 ]",
    "ünï 世界",
    "\tTAB inside",
    "a\\*b (glob)",
    "世",
    "→x (glob)",
    " é",
];
const CMDS: &[&str] = &["echo hello", "cat <<EOF", "printf 'a\\nb'", "true", "echo '  $ x'", "ls  ", "echo \"# no comment\"", ""];
const CONT: &[&str] = &["arg", "EOF", "  indented", "| sort", "> nested angle", "", ""];
const COMMENTS: &[&str] = &["# a comment", "#", "#   $ not a command", "#!x"];

fn test_strategy() -> BoxedStrategy<CramTest> {
    (
        proptest::sample::select(CMDS.to_vec()),
        vec(proptest::sample::select(CONT.to_vec()).prop_map(String::from), 0..3),
        vec(proptest::sample::select(BODY.to_vec()).prop_map(String::from), 0..6),
        proptest::option::weighted(0.3, (prop_oneof![Just(0u8), Just(1u8), any::<u8>()], any::<u16>())),
        vec((any::<u16>(), proptest::sample::select(COMMENTS.to_vec()).prop_map(String::from)), 0..2),
        proptest::bool::weighted(0.7),
    )
        .prop_map(|(c0, cont, body, exit, comments, with_comments)| {
            let mut cmd = vec![c0.to_string()];
            cmd.extend(cont);
            CramTest {
                cmd,
                body,
                exit,
                comments: if with_comments { vec![] } else { comments },
            }
        })
        .boxed()
}

fn doc_strategy() -> BoxedStrategy<CramDoc> {
    let item = prop_oneof![
        5 => test_strategy().prop_map(Item::Test),
        3 => proptest::sample::select(TITLES.to_vec()).prop_map(|t| Item::Title(t.to_string())),
        3 => Just(Item::Blank),
        1 => proptest::sample::select(COMMENTS.to_vec()).prop_map(|t| Item::Comment(t.to_string())),
    ];
    (vec(item, 0..10), proptest::bool::weighted(0.15), proptest::bool::weighted(0.85))
        .prop_map(|(items, crlf, final_newline)| CramDoc {
            items,
            crlf,
            final_newline,
        })
        .boxed()
}

pub struct ExpectedCram {
    pub command: String,
    pub expectations: Vec<String>,
    pub exit_code: Option<i32>,
    pub line_number: usize,
    /// Some(t): a title line lies between the previous test and this one
    pub title: Option<String>,
}

pub fn render(doc: &CramDoc) -> (String, Vec<ExpectedCram>, bool) {
    let mut lines: Vec<String> = vec![];
    let mut tests = vec![];
    let mut pending_title: Option<String> = None;
    let mut whitespace_feature = false;
    let mut prev_was_test_without_separator = false;
    for item in &doc.items {
        match item {
            Item::Title(t) => {
                lines.push(t.clone());
                pending_title = Some(t.clone());
                if prev_was_test_without_separator {
                    whitespace_feature = true; // test ended by a title line
                }
                prev_was_test_without_separator = false;
            }
            Item::Blank => {
                lines.push(String::new());
                prev_was_test_without_separator = false;
            }
            Item::Comment(c) => {
                lines.push(c.clone());
            }
            Item::Test(t) => {
                if prev_was_test_without_separator {
                    whitespace_feature = true; // consecutive `$`
                }
                let line_number = lines.len() + 1;
                for (i, c) in t.cmd.iter().enumerate() {
                    lines.push(format!("  {}{}", if i == 0 { "$ " } else { "> " }, c));
                }
                let mut body: Vec<(u8, String)> = t.body.iter().map(|l| (0u8, l.clone())).collect();
                let mut exit_code = None;
                if let Some((code, pos)) = t.exit {
                    let at = pick_idx(pos, body.len() + 1);
                    body.insert(at, (1, format!("[{code}]")));
                    exit_code = Some(code as i32);
                }
                // the line directly after the command must not read as a continuation of the
                // command (after an exit code line a `> x` line is an expectation again)
                if let Some(first) = body.first_mut() {
                    if first.0 == 0 && first.1.starts_with("> ") {
                        first.1 = "first".into();
                    }
                }
                for (pos, c) in &t.comments {
                    let at = pick_idx(*pos, body.len() + 1);
                    body.insert(at, (2, c.clone()));
                }
                let mut expectations = vec![];
                for (kind, l) in body {
                    match kind {
                        0 => {
                            if l.trim().is_empty() || l != l.trim_end() || l != l.trim_start() {
                                whitespace_feature = true;
                            }
                            lines.push(format!("  {l}"));
                            expectations.push(l);
                        }
                        1 => lines.push(format!("  {l}")),
                        _ => lines.push(l), // unindented comment: ignored
                    }
                }
                tests.push(ExpectedCram {
                    command: t.cmd.join("\n"),
                    expectations,
                    exit_code,
                    line_number,
                    title: pending_title.take(),
                });
                prev_was_test_without_separator = true;
            }
        }
    }
    let eol = if doc.crlf { "\r\n" } else { "\n" };
    let mut text = lines.join(eol);
    let last_blank = lines.last().map(|l| l.is_empty()).unwrap_or(false);
    if (doc.final_newline || last_blank) && !lines.is_empty() {
        text.push_str(eol);
    }
    (text, tests, whitespace_feature)
}

fn check_doc(doc: &CramDoc) -> V {
    let (text, expected, ws) = render(doc);
    let v = V::pass()
        .nt(expected.len() >= 2 && ws)
        .label_if(doc.crlf, "crlf")
        .label_if(ws, "whitespace_significant_feature")
        .label_if(expected.is_empty(), "no_tests");
    let (cfg, tests) = match cram_parse(&text) {
        Err(p) => return V::fail(format!("parser crashed: {p}\ndocument:\n{text}")),
        Ok(Err(e)) => return V::fail(format!("well-formed Cram document rejected: {e:#}\ndocument:\n{text}")),
        Ok(Ok(x)) => x,
    };
    if cfg != DocumentConfig::default_cram() {
        return V::fail(format!("document config {cfg} is not the Cram default"));
    }
    if tests.len() != expected.len() {
        return V::fail(format!(
            "{} tests parsed, {} written (parsed commands {:?})\ndocument:\n{text}",
            tests.len(),
            expected.len(),
            tests.iter().map(|t| t.shell_expression.clone()).collect::<Vec<_>>()
        ));
    }
    let mut prev_title: Option<String> = None;
    for (i, (g, e)) in tests.iter().zip(expected.iter()).enumerate() {
        let fail = |m: String| V::fail(format!("test {i}: {m}\ndocument:\n{text}"));
        if g.shell_expression != e.command {
            return fail(format!("shell expression {:?}, written {:?}", g.shell_expression, e.command));
        }
        let lines: Vec<String> = g.expectations.iter().map(|x| x.original_string()).collect();
        if lines != e.expectations {
            return fail(format!("expectation lines {:?}, written {:?}", lines, e.expectations));
        }
        for (x, line) in g.expectations.iter().zip(e.expectations.iter()) {
            let (_, kind, quant) = r_expect(line);
            let (gk, _, opt, multi) = x.unmake();
            let q = match (opt, multi) {
                (false, false) => "",
                (true, false) => "?",
                (true, true) => "*",
                (false, true) => "+",
            };
            if gk != kind || q != quant {
                return fail(format!("expectation {line:?} read as {gk} {q:?}, grammar says {kind} {quant:?}"));
            }
            if let Err(m) = crate::c08::expression_as_written(x, line) {
                return fail(m);
            }
        }
        if g.exit_code != e.exit_code {
            return fail(format!("exit code {:?}, written {:?}", g.exit_code, e.exit_code));
        }
        if g.line_number != e.line_number {
            return fail(format!("line number {}, the `$` line is line {}", g.line_number, e.line_number));
        }
        if g.config != TestCaseConfig::default_cram() {
            return fail(format!("config {} is not the Cram default", g.config));
        }
        match &e.title {
            Some(t) => {
                if &g.title != t {
                    return fail(format!("title {:?}, nearest preceding title line is {:?}", g.title, t));
                }
            }
            None => {
                // no title line since the previous test: "" or the previous title are both readings
                if !g.title.is_empty() && Some(&g.title) != prev_title.as_ref() {
                    return fail(format!("title {:?} comes from nowhere", g.title));
                }
            }
        }
        if e.title.is_some() {
            prev_title = e.title.clone();
        }
    }
    v
}

// ---------------------------------------------------------------------------
// arbitrary line soup: no crash; if accepted, line numbers point at `  $ ` lines

#[derive(Clone, Debug, Serialize, Deserialize)]
pub struct SoupCase {
    pub lines: Vec<String>,
}

const SOUP: &[&str] = &[
    "  $ cmd", "  > cont", "  out", "  ", " ", "", "title", "# c", "  [1]", "  [2]", "  x (re)", "  ( (re)",
    "  \\x (esc)", "   $ three", " $ one", "$ zero", "  $", "  $  two blanks", "\t$ tab", "  > ", "  é (glob)", "  ()", "  [-1]", "  [+1]", "  >", "  > ",
    "世", " é", "aé", "€", " 世 $ x", "  世", "\u{a0}\u{a0}$ nbsp", "\u{2003}$ em space",
];

fn check_soup(c: &SoupCase) -> V {
    check_soup_lines(&c.lines)
}

pub fn check_soup_lines(lines_in: &[String]) -> V {
    let text = lines_in.join("\n");
    let v = V::pass().nt(lines_in.len() >= 3);
    match cram_parse(&text) {
        Err(p) => V::fail(format!("parser crashed: {p}\ndocument:\n{text}")),
        Ok(Err(_)) => v.label("rejected"),
        Ok(Ok((_, tests))) => {
            let lines: Vec<&str> = text.lines().collect();
            let mut last = 0;
            for (i, t) in tests.iter().enumerate() {
                let first = t.shell_expression.split('\n').next().unwrap_or("");
                let n = t.line_number;
                if n == 0 || n > lines.len() || lines[n - 1] != format!("  $ {first}") {
                    return V::fail(format!(
                        "test {i}: line {n} is not the `  $ ` line of {:?}\ndocument:\n{text}",
                        first
                    ));
                }
                if n <= last {
                    return V::fail(format!("line numbers do not ascend\ndocument:\n{text}"));
                }
                last = n;
                // unindented text and comments never become commands or expectations
                for l in t.shell_expression.split('\n') {
                    if !lines.iter().any(|dl| *dl == format!("  $ {l}") || *dl == format!("  > {l}")) {
                        return V::fail(format!("command line {l:?} is not an indented `$`/`>` line\ndocument:\n{text}"));
                    }
                }
                for x in &t.expectations {
                    let o = x.original_string();
                    if !lines.iter().any(|dl| *dl == format!("  {o}")) {
                        return V::fail(format!("expectation {o:?} is not an indented line of the document\ndocument:\n{text}"));
                    }
                }
            }
            v.label("accepted")
        }
    }
}

pub fn property() -> Property {
    Property {
        id: "C07",
        assumptions: vec![
            "G-cram renders only documented constructs; such documents must parse",
            "titles are asserted when a title line lies between the previous test and this one; otherwise both the empty title and the previous title are accepted",
            "`#` lines are ignored wherever they occur; an indented `# x` is an expectation",
        ],
        parts: vec![
            Box::new(PropPart::<CramDoc> {
                name: "documents",
                rule: "G-cram: title lines, blank lines, # comments (also inside tests), tests (`  $ cmd`, `  > cont`, expectation lines incl. empty / blank-only / trailing-blank / leading-blank / `# x`, `  [n]` anywhere), consecutive `$` lines, tests ended by blank line / title line / end of file; CRLF and missing final newline. Non-trivial: >=2 tests and >=1 whitespace-significant feature",
                quick: 60_000,
                thorough: 2_000_000,
                max_workers: 0,
                strategy: Box::new(|_| doc_strategy()),
                check: Box::new(check_doc),
            }),
            Box::new(PropPart::<SoupCase> {
                name: "soup",
                rule: "arbitrary sequences of Cram-like lines (wrong indentation, malformed expressions, stray continuations, one line in four an indentation followed by random Unicode text): no crash; if accepted, line numbers point at `  $ ` lines, commands and expectations are indented lines of the document. Non-trivial: >=3 lines",
                quick: 60_000,
                thorough: 2_000_000,
                max_workers: 0,
                strategy: Box::new(|_| {
                    // three quarters from the pool, one quarter an indentation plus arbitrary
                    // printable Unicode text (characters of every UTF-8 width at every offset)
                    vec(
                        prop_oneof![
                            3 => proptest::sample::select(SOUP.to_vec()).prop_map(String::from),
                            1 => (proptest::sample::select(vec!["", " ", "  ", "   ", "  $ ", "  > ", "\t"]), "\\PC{0,6}")
                                .prop_map(|(indent, text)| format!("{indent}{}", text.replace(['\n', '\r'], ""))),
                        ],
                        0..10,
                    )
                        .prop_map(|lines| SoupCase { lines })
                        .boxed()
                }),
                check: Box::new(check_soup),
            }),
        ],
    }
}
