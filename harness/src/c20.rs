//! C20: every test runs once, in order; exit status 0 / 50 / 1 reports the run.

use proptest::collection::vec;
use proptest::prelude::*;
use serde::{Deserialize, Serialize};

use crate::engine::*;
use crate::proc::*;

/// 0 pass, 1 fail on output, 2 fail on exit code, 3 timeout, 4 skip, 5 detached
pub type Kind = u8;

#[derive(Clone, Debug, Serialize, Deserialize)]
pub struct D20 {
    pub cram: bool,
    pub tests: Vec<Kind>,
    pub in_dir: bool,
}

#[derive(Clone, Debug, Serialize, Deserialize)]
pub struct Case20 {
    pub docs: Vec<D20>,
    /// 0 none, 1 via front-matter of every Markdown document, 2 via -P / -A
    pub prepend_via: u8,
    pub append_via: u8,
    pub pre: Vec<Kind>,
    pub post: Vec<Kind>,
    /// 0 none, 1 non-UTF-8 document, 2 unparsable document, 3 missing path, 4 shell cannot be started,
    /// 5 non-UTF-8 document found by scanning a directory, 6 unparsable document found that way
    pub fault: u8,
    /// also render with the pretty renderer and check the summary line
    pub pretty: bool,
}

fn kind_strategy(cram: bool) -> BoxedStrategy<Kind> {
    if cram {
        prop_oneof![5 => Just(0u8), 2 => Just(1u8), 2 => Just(2u8), 1 => Just(4u8)].boxed()
    } else {
        prop_oneof![6 => Just(0u8), 2 => Just(1u8), 2 => Just(2u8), 1 => Just(3u8), 1 => Just(4u8), 2 => Just(5u8), 1 => Just(6u8)].boxed()
    }
}

fn case_strategy() -> BoxedStrategy<Case20> {
    let doc = proptest::bool::weighted(0.45).prop_flat_map(|cram| {
        (vec(kind_strategy(cram), 0..5), proptest::bool::weighted(0.3)).prop_map(move |(tests, in_dir)| D20 { cram, tests, in_dir })
    });
    (
        vec(doc, 1..5),
        0u8..3,
        0u8..3,
        vec(kind_strategy(false), 1..3),
        vec(kind_strategy(false), 1..3),
        prop_oneof![8 => Just(0u8), 1 => 1u8..7],
        proptest::bool::weighted(0.3),
        proptest::bool::weighted(0.35),
    )
        .prop_map(|(mut docs, prepend_via, append_via, pre, post, fault, pretty, mixed_formats)| {
            // prepend / append documents are Markdown: a run that uses them has Markdown documents
            // only; a run with mixed formats uses neither
            let (prepend_via, append_via) = if mixed_formats { (0, 0) } else { (prepend_via, append_via) };
            if prepend_via != 0 || append_via != 0 || !mixed_formats {
                for d in docs.iter_mut() {
                    if d.cram {
                        d.cram = false;
                    }
                }
            }
            // at most one timeout per case (each costs wall time)
            let mut seen = false;
            let mut fix = |ks: &mut Vec<Kind>| {
                for k in ks.iter_mut() {
                    if *k == 3 || *k == 6 {
                        if seen {
                            *k = 0;
                        }
                        seen = true;
                    }
                }
            };
            // the deadline scenario (kind 6) needs the front-matter of a given document
            let mut pre: Vec<Kind> = pre.into_iter().map(|k| if k == 6 { 0 } else { k }).collect();
            let mut post: Vec<Kind> = post.into_iter().map(|k| if k == 6 { 0 } else { k }).collect();
            fix(&mut pre);
            for d in docs.iter_mut() {
                fix(&mut d.tests);
            }
            fix(&mut post);
            // a detached test case behind the point where the document runs out of time may or
            // may not be started: not generated (the order of what is started is C14's subject)
            let mut deadline_anywhere = false;
            for d in docs.iter_mut() {
                if let Some(s) = d.tests.iter().position(|k| *k == 6) {
                    deadline_anywhere = true;
                    for k in d.tests.iter_mut().skip(s + 1) {
                        if *k == 5 {
                            *k = 0;
                        }
                    }
                }
            }
            if deadline_anywhere {
                for k in post.iter_mut() {
                    if *k == 5 {
                        *k = 0;
                    }
                }
            }
            Case20 { docs, prepend_via, append_via, pre, post, fault, pretty }
        })
        .boxed()
}

fn md_test(id: &str, k: Kind) -> String {
    let log = format!("echo {id} >> \"$VERIF_LOG\"");
    match k {
        0 => format!("# {id}\n\n```scrut\n$ {log}; echo out\nout\n```\n\n"),
        1 => format!("# {id}\n\n```scrut\n$ {log}; echo out\nsomething else\n```\n\n"),
        2 => format!("# {id}\n\n```scrut\n$ {log}; echo out; (exit 3)\nout\n```\n\n"),
        3 => format!("# {id}\n\n```scrut {{timeout: 400ms}}\n$ {log}; sleep 4\n```\n\n"),
        4 => format!("# {id}\n\n```scrut\n$ {log}; exit 80\n```\n\n"),
        // the document (total_timeout: 3s) runs out of time while scrut waits before this test case
        6 => format!("# {id}\n\n```scrut {{wait: 3500ms}}\n$ {log}; echo out\nout\n```\n\n"),
        _ => format!("# {id}\n\n```scrut {{detached: true}}\n$ {log}\n```\n\n"),
    }
}

fn cram_test(id: &str, k: Kind) -> String {
    let log = format!("echo {id} >> \"$VERIF_LOG\"");
    match k {
        0 => format!("{id}\n  $ {log}; echo out\n  out\n\n"),
        1 => format!("{id}\n  $ {log}; echo out\n  something else\n\n"),
        2 => format!("{id}\n  $ {log}; echo out; (exit 3)\n  out\n\n"),
        _ => format!("{id}\n  $ {log}; (exit 80)\n\n"),
    }
}

#[derive(Clone, Debug)]
struct DocModel {
    /// ids that must appear in the log in this order (non-detached, executed)
    log: Vec<String>,
    /// detached ids that must appear exactly once (executed) / must not appear
    detached_ran: Vec<String>,
    never_ran: Vec<String>,
    /// expected result kinds (`a|b` = either); `true` = the entry may be absent (detached test)
    kinds: Vec<(&'static str, bool)>,
    /// ids that may or may not appear in the log (the test case at which the document deadline passes)
    log_optional: Vec<String>,
    /// the document runs out of time: whatever is reported, the run has failed
    deadline: bool,
}

fn model(ids: &[(String, Kind)], cram: bool) -> DocModel {
    let mut m = DocModel { log: vec![], detached_ran: vec![], never_ran: vec![], kinds: vec![], log_optional: vec![], deadline: false };
    let kind_name = |k: Kind| match k {
        0 | 5 => "success",
        1 => "malformed_output",
        2 => "invalid_exit_code",
        3 => "timeout",
        _ => "skipped",
    };
    let stop = ids.iter().position(|(_, k)| *k == 3 || *k == 4 || *k == 6);
    match stop {
        Some(s) if ids[s].1 == 6 => {
            // document deadline passes during the wait before test case s
            m.deadline = true;
            for (i, (id, k)) in ids.iter().enumerate() {
                if i < s {
                    if *k == 5 { m.detached_ran.push(id.clone()) } else { m.log.push(id.clone()) }
                    m.kinds.push((kind_name(*k), *k == 5));
                } else if i == s {
                    m.log_optional.push(id.clone());
                    m.kinds.push(("success|timeout", false));
                } else {
                    m.never_ran.push(id.clone());
                    m.kinds.push(("timeout|skipped", *k == 5));
                }
            }
        }
        Some(s) if ids[s].1 == 4 => {
            // skip: everything is reported skipped; tests up to the skipping one ran
            // (Cram runs the whole script: every command runs, then the document is skipped)
            for (i, (id, k)) in ids.iter().enumerate() {
                if i <= s || cram {
                    if *k == 5 { m.detached_ran.push(id.clone()) } else { m.log.push(id.clone()) }
                } else {
                    m.never_ran.push(id.clone());
                }
                m.kinds.push(("skipped", *k == 5));
            }
        }
        Some(s) => {
            for (i, (id, k)) in ids.iter().enumerate() {
                if i <= s {
                    if *k == 5 { m.detached_ran.push(id.clone()) } else { m.log.push(id.clone()) }
                    m.kinds.push((kind_name(*k), *k == 5));
                } else {
                    m.never_ran.push(id.clone());
                    m.kinds.push(("skipped", *k == 5));
                }
            }
        }
        None => {
            for (id, k) in ids {
                if *k == 5 {
                    m.detached_ran.push(id.clone());
                } else {
                    m.log.push(id.clone());
                    m.kinds.push((kind_name(*k), false));
                }
            }
        }
    }
    m
}

/// does `got` equal `exp` where optional entries of `exp` may be absent?
fn match_optional(got: &[String], exp: &[(&'static str, bool)]) -> bool {
    fn rec(g: &[String], e: &[(&'static str, bool)]) -> bool {
        match e.split_first() {
            None => g.is_empty(),
            Some(((k, opt), rest)) => {
                (g.first().map(|x| k.split('|').any(|alt| alt == x)).unwrap_or(false) && rec(&g[1..], rest)) || (*opt && rec(g, rest))
            }
        }
    }
    rec(got, exp)
}

fn permutations(n: usize) -> Vec<Vec<usize>> {
    fn rec(cur: &mut Vec<usize>, used: &mut Vec<bool>, n: usize, out: &mut Vec<Vec<usize>>) {
        if cur.len() == n {
            out.push(cur.clone());
            return;
        }
        for i in 0..n {
            if !used[i] {
                used[i] = true;
                cur.push(i);
                rec(cur, used, n, out);
                cur.pop();
                used[i] = false;
            }
        }
    }
    let mut out = vec![];
    rec(&mut vec![], &mut vec![false; n], n, &mut out);
    out
}

fn check_case(c: &Case20) -> V {
    let dir = match CaseDir::new("C20") {
        Ok(d) => d,
        Err(e) => inconclusive(&format!("scratch: {e}")),
    };
    let root = dir.path().join("docs");
    let suite = root.join("suite");
    std::fs::create_dir_all(&suite).ok();
    let log_path = dir.path().join("log.txt");
    // prepend / append documents next to every document
    let pre_ids: Vec<(String, Kind)> = c.pre.iter().enumerate().map(|(i, k)| (format!("P{i}"), *k)).collect();
    let post_ids: Vec<(String, Kind)> = c.post.iter().enumerate().map(|(i, k)| (format!("Q{i}"), *k)).collect();
    // the prepend / append documents live in a directory that is not part of the run
    let inc = dir.path().join("inc");
    std::fs::create_dir_all(&inc).ok();
    std::fs::write(inc.join("pre.md"), pre_ids.iter().map(|(id, k)| md_test(id, *k)).collect::<String>()).ok();
    std::fs::write(inc.join("post.md"), post_ids.iter().map(|(id, k)| md_test(id, *k)).collect::<String>()).ok();
    let mut paths: Vec<String> = vec![];
    let mut models: Vec<DocModel> = vec![];
    let mut dumps: Vec<String> = vec![];
    let mut dir_added = false;
    for (di, d) in c.docs.iter().enumerate() {
        let ids: Vec<(String, Kind)> = d.tests.iter().enumerate().map(|(i, k)| (format!("D{di}T{i}"), *k)).collect();
        let mut text = String::new();
        if d.cram {
            for (id, k) in &ids {
                text.push_str(&cram_test(id, *k));
            }
        } else {
            let mut fm = vec![];
            if c.prepend_via == 1 {
                fm.push(format!("prepend:\n  - {}", pathdiff(&inc.join("pre.md"), if d.in_dir { &suite } else { &root })));
            }
            if c.append_via == 1 {
                fm.push(format!("append:\n  - {}", pathdiff(&inc.join("post.md"), if d.in_dir { &suite } else { &root })));
            }
            if d.tests.contains(&6) {
                fm.push("total_timeout: 3s".to_string());
            }
            if !fm.is_empty() {
                text.push_str(&format!("---\n{}\n---\n\n", fm.join("\n")));
            }
            for (id, k) in &ids {
                text.push_str(&md_test(id, *k));
            }
            if ids.is_empty() {
                text.push_str("Just prose, no tests.\n");
            }
        }
        let name = format!("doc{di}.{}", if d.cram { "t" } else { "md" });
        let p = if d.in_dir { suite.join(&name) } else { root.join(&name) };
        std::fs::write(&p, &text).ok();
        dumps.push(format!("--- {}:\n{text}", p.display()));
        if d.in_dir {
            if !dir_added {
                paths.push(suite.to_string_lossy().to_string());
                dir_added = true;
            }
        } else {
            paths.push(p.to_string_lossy().to_string());
        }
        let mut combined = vec![];
        if c.prepend_via != 0 && !d.cram {
            combined.extend(pre_ids.iter().cloned());
        }
        combined.extend(ids);
        if c.append_via != 0 && !d.cram {
            combined.extend(post_ids.iter().cloned());
        }
        models.push(model(&combined, d.cram));
    }
    // run-level faults
    let mut extra_args: Vec<String> = vec![];
    match c.fault {
        1 => {
            let p = root.join("zz-not-utf8.md");
            std::fs::write(&p, b"# bad\n\n```scrut\n$ echo \xff\xfe\n```\n").ok();
            paths.push(p.to_string_lossy().to_string());
        }
        2 => {
            let p = root.join("zz-unparsable.md");
            std::fs::write(&p, "# bad\n\n```scrut\nexpectation without command\n```\n").ok();
            paths.push(p.to_string_lossy().to_string());
        }
        3 => paths.push(root.join("does-not-exist.md").to_string_lossy().to_string()),
        5 | 6 => {
            // in a sub-directory of a directory that is given as a path
            let sub = suite.join("sub");
            std::fs::create_dir_all(&sub).ok();
            if c.fault == 5 {
                std::fs::write(sub.join("zz-not-utf8.md"), b"# bad\n\n```scrut\n$ echo \xff\xfe\n```\n").ok();
            } else {
                std::fs::write(sub.join("zz-unparsable.md"), "# bad\n\n```scrut\nexpectation without command\n```\n").ok();
            }
            if !dir_added {
                paths.push(suite.to_string_lossy().to_string());
            }
        }
        4 => {
            extra_args.push("--shell".into());
            extra_args.push("/nonexistent/shell".into());
        }
        _ => {}
    }
    let mut args: Vec<String> = vec!["test".into(), "--no-color".into()];
    args.extend(extra_args);
    args.extend(paths.iter().cloned());
    if c.prepend_via == 2 {
        args.push("-P".into());
        args.push(inc.join("pre.md").to_string_lossy().to_string());
    }
    if c.append_via == 2 {
        args.push("-A".into());
        args.push(inc.join("post.md").to_string_lossy().to_string());
    }
    let run_with = |renderer: &str| -> RunResult {
        std::fs::remove_file(&log_path).ok();
        let mut a: Vec<&str> = args.iter().map(|s| s.as_str()).collect();
        a.push("-r");
        a.push(renderer);
        let mut cmd = scrut_command(&dir, &a);
        cmd.env("VERIF_LOG", &log_path);
        match run_cmd(cmd, None, 180) {
            Ok(r) => r,
            Err(e) => inconclusive(&format!("scrut test: {e}")),
        }
    };
    let has_detached = models.iter().any(|m| !m.detached_ran.is_empty());
    let all_kinds: std::collections::BTreeSet<&str> = models.iter().flat_map(|m| m.kinds.iter().map(|k| k.0)).collect();
    let v = V::pass()
        .nt((c.docs.len() >= 2 && all_kinds.len() >= 2) || (c.prepend_via != 0 && c.append_via != 0))
        .label_if(c.fault != 0, "run_level_fault")
        .label_if(c.prepend_via != 0, "prepend")
        .label_if(c.append_via != 0, "append")
        .label_if(c.docs.iter().any(|d| d.in_dir), "directory_path")
        .label_if(c.docs.iter().any(|d| d.cram), "cram")
        .label_if(has_detached, "detached")
        .label_if(all_kinds.contains("timeout"), "timeout")
        .label_if(models.iter().any(|m| m.deadline), "document_deadline_passes_between_test_cases")
        .label_if(all_kinds.contains("skipped"), "skipped");
    let dump = || format!("args: {:?}\n{}", &args[1..], dumps.join("\n"));

    let run = run_with("json");
    if c.fault != 0 {
        return if run.code == Some(1) {
            v
        } else {
            V::fail(format!(
                "scrut could not do its job (fault class {}) but exits with {:?} instead of 1\nstderr: {}\n{}",
                c.fault,
                run.code,
                truncate(&run.stderr, 400),
                dump()
            ))
        };
    }
    if has_detached {
        std::thread::sleep(std::time::Duration::from_millis(400));
    }
    let log: Vec<String> = std::fs::read_to_string(&log_path).unwrap_or_default().lines().map(String::from).collect();
    let kinds = match json_result_kinds(&run.stdout) {
        Ok(k) => k,
        Err(e) => {
            return V::fail(format!("no JSON report (exit {:?}): {e}\nstderr: {}\n{}", run.code, truncate(&run.stderr, 600), dump()))
        }
    };
    // detached ids: exactly once when executed, never otherwise; removed for the order check
    let detached_ids: Vec<&String> = models.iter().flat_map(|m| m.detached_ran.iter()).collect();
    let is_detached_id = |id: &String| id.starts_with('P') && c.pre.get(id[1..].parse::<usize>().unwrap_or(99)) == Some(&5)
        || id.starts_with('Q') && c.post.get(id[1..].parse::<usize>().unwrap_or(99)) == Some(&5)
        || id.starts_with('D') && {
            let parts: Vec<&str> = id[1..].split('T').collect();
            let (d, t) = (parts[0].parse::<usize>().unwrap_or(99), parts.get(1).and_then(|x| x.parse::<usize>().ok()).unwrap_or(99));
            c.docs.get(d).and_then(|d| d.tests.get(t)) == Some(&5)
        };
    let optional_ids: Vec<&String> = models.iter().flat_map(|m| m.log_optional.iter()).collect();
    for id in &optional_ids {
        if log.iter().filter(|l| l == id).count() > 1 {
            return V::fail(format!("test case {id} ran more than once (log {:?})\n{}", log, dump()));
        }
    }
    let ordered_log: Vec<String> = log.iter().filter(|id| !is_detached_id(id) && !optional_ids.contains(id)).cloned().collect();
    let expected_detached_total = detached_ids.len();
    let got_detached_total = log.iter().filter(|id| is_detached_id(id)).count();
    if got_detached_total != expected_detached_total {
        return V::fail(format!(
            "detached test cases ran {got_detached_total} times in total, expected {expected_detached_total} (log {:?})\n{}",
            log,
            dump()
        ));
    }
    // some order of the documents must explain both the log and the report
    let mut explained = false;
    for perm in permutations(models.len()) {
        let exp_log: Vec<String> = perm.iter().flat_map(|i| models[*i].log.iter().cloned()).collect();
        if exp_log != ordered_log {
            continue;
        }
        let exp_kinds: Vec<(&'static str, bool)> = perm.iter().flat_map(|i| models[*i].kinds.iter().cloned()).collect();
        if match_optional(&kinds, &exp_kinds) {
            explained = true;
            break;
        }
    }
    if !explained {
        return V::fail(format!(
            "no order of the documents explains the run:\n  executed (log): {:?}\n  reported kinds: {:?}\n  model per document: {:?}\n{}",
            ordered_log,
            kinds,
            models.iter().map(|m| (m.log.clone(), m.kinds.clone())).collect::<Vec<_>>(),
            dump()
        ));
    }
    // (tests after the stop point of their document: the exact log comparison above already
    //  excludes that they ran; detached ones are covered by the total count)
    let failed = kinds.iter().filter(|k| ["malformed_output", "invalid_exit_code", "timeout", "internal_error"].contains(&k.as_str())).count();
    // a document that ran out of time has failed, whatever is reported for its test cases
    let want = if failed > 0 || models.iter().any(|m| m.deadline) { 50 } else { 0 };
    if run.code != Some(want) {
        return V::fail(format!("exit status {:?}, expected {want} ({failed} failed results: {:?})\n{}", run.code, kinds, dump()));
    }
    // summary line of the pretty renderer
    if c.pretty && !has_detached && !all_kinds.contains("timeout") && !models.iter().any(|m| m.deadline) {
        let p = run_with("pretty");
        let text = String::from_utf8_lossy(&p.stdout).to_string();
        let succeeded = kinds.iter().filter(|k| *k == "success").count();
        let skipped = kinds.iter().filter(|k| *k == "skipped").count();
        let expect = format!("{} testcase(s): {} succeeded, {} failed and {} skipped", kinds.len(), succeeded, failed, skipped);
        if !text.contains(&expect) {
            return V::fail(format!(
                "summary line does not say `{expect}`:\n{}\n{}",
                text.lines().filter(|l| l.contains("Result")).collect::<Vec<_>>().join("\n"),
                dump()
            ));
        }
        if p.code != Some(want) {
            return V::fail(format!("pretty run exits {:?}, json run {want}", p.code));
        }
        return v.label("summary_line_checked");
    }
    v
}

/// relative path from `base` to `target` (both absolute, `target` outside of `base` allowed)
fn pathdiff(target: &std::path::Path, base: &std::path::Path) -> String {
    let t: Vec<_> = target.components().collect();
    let b: Vec<_> = base.components().collect();
    let common = t.iter().zip(b.iter()).take_while(|(x, y)| x == y).count();
    let mut out = std::path::PathBuf::new();
    for _ in common..b.len() {
        out.push("..");
    }
    for c in &t[common..] {
        out.push(c);
    }
    out.to_string_lossy().to_string()
}

pub fn property() -> Property {
    Property {
        id: "C20",
        assumptions: vec![
            "test cases log their id to a file named by an inherited environment variable; the log is the ground truth for what ran and in which order",
            "the order among documents is not asserted (directories are listed in file system order): some permutation of the documents must explain both the log and the report",
            "detached test cases: 0 or 1 result, executed exactly once (checked after a grace period)",
            "prepend / append documents are Markdown, so runs that use them contain Markdown documents only",
        ],
        parts: vec![Box::new(PropPart::<Case20> {
            name: "runs",
            rule: "runs over 1..4 documents (Markdown / Cram, files and a directory), prepend / append via front-matter or -P / -A, tests that pass, fail on output, fail on exit code, time out, skip or detach; run-level faults (non-UTF-8 document, unparsable document, missing path, shell that cannot be started); `scrut test -r json` (and pretty for the summary line). Non-trivial: >=2 documents and >=2 outcome kinds, or prepend+append",
            quick: 400,
            thorough: 6_000,
            max_workers: 12,
            strategy: Box::new(|_| case_strategy()),
            check: Box::new(check_case),
        })],
    }
}
