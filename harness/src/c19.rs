//! C19: every renderer handles every outcome and shows every difference.

use proptest::collection::vec;
use proptest::prelude::*;
use scrut::diff::DiffLine;
use scrut::escaping::Escaper;
use scrut::outcome::Outcome;
use scrut::output::{ExitStatus, Output};
use scrut::parsers::parser::ParserType;
use scrut::renderers::diff::DiffRenderer;
use scrut::renderers::pretty::{PrettyColorRenderer, PrettyMonochromeRenderer};
use scrut::renderers::renderer::Renderer;
use scrut::renderers::structured::{JsonRenderer, YamlRenderer};
use scrut::testcase::{TestCase, TestCaseError};
use serde::{Deserialize, Serialize};

use crate::engine::*;
use crate::matcher::with_maker;

#[derive(Clone, Debug, Serialize, Deserialize)]
pub struct Slot {
    /// 0 matched pair, 1 expectation only, 2 output line only
    pub kind: u8,
    /// index into TEXTS
    pub text: u16,
    /// 0 equal, 1 glob, 2 `?`, 3 `*`
    pub modifier: u8,
}

#[derive(Clone, Debug, Serialize, Deserialize)]
pub struct OutcomeSpec {
    /// 0 from slots (Ok / MalformedOutput), 1 InvalidExitCode, 2 Timeout, 3 Skipped, 4 InternalError
    pub kind: u8,
    pub slots: Vec<Slot>,
    pub final_newline: bool,
    pub title: u8,
    pub command: u8,
    pub line_number: u32,
    pub ascii: bool,
    pub cram: bool,
}

#[derive(Clone, Debug, Serialize, Deserialize)]
pub struct RenderCase {
    pub outcomes: Vec<OutcomeSpec>,
    pub locations: bool,
    pub surrounding: u8,
    pub absolute: bool,
}

const TEXTS: &[&[u8]] = &[
    b"plain text",
    b"",
    "ünï cödé".as_bytes(),
    "wide 世界 text".as_bytes(),
    "trailing ideographic space\u{3000}".as_bytes(),
    "trailing nbsp\u{a0}".as_bytes(),
    b"trailing blanks   ",
    b"trailing tab\t",
    "only blanks after token \u{2003}\u{2003}".as_bytes(),
    b"control \x1b[1mbold\x1b[0m bytes",
    b"nul \x00 byte",
    b"invalid \xff\xfe utf8",
    b"back\\slash and (parens)",
    "emoji 😀😀".as_bytes(),
    b"LONG",
    "combining e\u{301}".as_bytes(),
    b"ends (glob)",
    "wide blank before a tail\u{3000}(glob)".as_bytes(),
    "nbsp before a tail\u{a0}(?)".as_bytes(),
    b"[1]",
];
const TITLES: &[&str] = &["a title", "", "multi\nline title", "ünï 世界 title", "title with trailing space "];
const COMMANDS: &[&str] = &["cmd", "multi \\\nline | command", "echo 世界", "printf '%s' \"$X\""];

fn text_bytes(i: u16) -> Vec<u8> {
    let t = TEXTS[pick_idx(i, TEXTS.len())];
    if t == b"LONG" {
        "x".repeat(5000).into_bytes()
    } else {
        t.to_vec()
    }
}

fn case_strategy() -> BoxedStrategy<RenderCase> {
    let slot = (prop_oneof![3 => Just(0u8), 2 => Just(1u8), 2 => Just(2u8), 1 => Just(3u8)], any::<u16>(), prop_oneof![5 => Just(0u8), 1 => Just(1u8), 1 => Just(2u8), 1 => Just(3u8)])
        .prop_map(|(kind, text, modifier)| Slot { kind, text, modifier });
    let outcome = (
        prop_oneof![6 => Just(0u8), 1 => Just(1u8), 1 => Just(2u8), 1 => Just(3u8), 1 => Just(4u8)],
        vec(slot, 0..7),
        proptest::bool::weighted(0.8),
        0u8..5,
        0u8..4,
        prop_oneof![1u32..50, 1u32..100_000],
        any::<bool>(),
        proptest::bool::weighted(0.2),
    )
        .prop_map(|(kind, slots, final_newline, title, command, line_number, ascii, cram)| OutcomeSpec {
            kind,
            slots,
            final_newline,
            title,
            command,
            line_number,
            ascii,
            cram,
        });
    (vec(outcome, 0..5), any::<bool>(), 0u8..8, any::<bool>())
        .prop_map(|(outcomes, locations, surrounding, absolute)| RenderCase {
            outcomes,
            locations,
            surrounding,
            absolute,
        })
        .boxed()
}

struct Built {
    outcome: Outcome,
    /// tokens that must be visible in pretty / diff output
    must_show: Vec<String>,
    /// all tokens of this outcome
    all_tokens: Vec<String>,
    kind: &'static str,
}

fn build(oi: usize, spec: &OutcomeSpec, with_location: bool) -> Option<Built> {
    let mut exp_lines: Vec<String> = vec![];
    let mut out: Vec<u8> = vec![];
    let mut all_tokens = vec![];
    // kind 3: a multiline expectation that matches a run of 2..15 output lines
    let run_len = |s: &Slot| 2 + (s.text % 14) as usize;
    let n_out: usize = spec.slots.iter().map(|s| match s.kind { 1 => 0, 3 => run_len(s), _ => 1 }).sum();
    let mut out_seen = 0;
    for (si, s) in spec.slots.iter().enumerate() {
        let text = text_bytes(s.text);
        let etok = format!("Te{oi}x{si}E");
        let otok = format!("To{oi}x{si}E");
        if s.kind == 0 || s.kind == 1 {
            // expectation text must be valid UTF-8 (it is written in a document)
            let t = String::from_utf8_lossy(&text).replace(['\n', '\r'], "");
            let tok = if s.kind == 0 { &otok } else { &etok };
            let line = match s.modifier {
                1 => format!("{tok}* (glob)"),
                2 if s.kind == 1 => format!("{tok} {t} (equal+)"),
                3 if s.kind == 1 => format!("{tok} {t} (equal)"),
                _ => format!("{tok} {t}"),
            };
            exp_lines.push(line);
            if s.kind == 1 {
                all_tokens.push(etok.clone());
            }
        }
        if s.kind == 3 {
            let rtok = format!("Tr{oi}x{si}E");
            exp_lines.push(format!("{rtok} * (glob+)"));
            for k in 0..run_len(s) {
                out_seen += 1;
                out.extend_from_slice(format!("{rtok} {k}").as_bytes());
                if out_seen < n_out || spec.final_newline {
                    out.push(b'\n');
                }
            }
            all_tokens.push(rtok);
            continue;
        }
        if s.kind == 0 || s.kind == 2 {
            out_seen += 1;
            let mut l = otok.clone().into_bytes();
            l.push(b' ');
            if s.kind == 0 {
                l.extend_from_slice(String::from_utf8_lossy(&text).replace(['\n', '\r'], "").as_bytes());
            } else {
                l.extend_from_slice(&text);
            }
            l.retain(|b| *b != b'\n');
            out.extend_from_slice(&l);
            if out_seen < n_out || spec.final_newline {
                out.push(b'\n');
            }
            all_tokens.push(otok.clone());
        }
    }
    let expectations = with_maker(|m| exp_lines.iter().map(|l| m.parse(l)).collect::<Result<Vec<_>, _>>()).ok()?;
    let testcase = TestCase {
        title: TITLES[spec.title as usize % TITLES.len()].to_string(),
        shell_expression: COMMANDS[spec.command as usize % COMMANDS.len()].to_string(),
        expectations,
        exit_code: None,
        line_number: spec.line_number as usize,
        config: Default::default(),
    };
    let output = Output {
        stdout: out.clone().into(),
        stderr: b"something on stderr\n".to_vec().into(),
        exit_code: ExitStatus::Code(if spec.kind == 1 { 3 } else { 0 }),
    };
    let mut must_show = vec![];
    let (result, kind): (Result<(), TestCaseError>, &'static str) = match spec.kind {
        0 | 1 => {
            let r = testcase.validate(&output);
            match &r {
                Ok(()) => (r, "success"),
                Err(TestCaseError::MalformedOutput(diff)) => {
                    for dl in &diff.lines {
                        match dl {
                            DiffLine::UnmatchedExpectation { expectation, .. } => {
                                let o = expectation.original_string();
                                must_show.push(o.split(|c: char| !c.is_ascii_alphanumeric()).next().unwrap_or("").to_string());
                            }
                            DiffLine::UnexpectedLines { lines } => {
                                for (_, l) in lines {
                                    let s = String::from_utf8_lossy(l);
                                    must_show.push(s.split(|c: char| !c.is_ascii_alphanumeric()).next().unwrap_or("").to_string());
                                }
                            }
                            _ => {}
                        }
                    }
                    (r, "malformed_output")
                }
                Err(TestCaseError::InvalidExitCode { .. }) => (r, "invalid_exit_code"),
                Err(_) => (r, "other"),
            }
        }
        2 => (Err(TestCaseError::Timeout), "timeout"),
        3 => (Err(TestCaseError::Skipped), "skipped"),
        _ => (Err(TestCaseError::InternalError(anyhow::anyhow!("an internal\nerror ünï"))), "internal_error"),
    };
    Some(Built {
        outcome: Outcome {
            location: if with_location { Some(format!("dir/doc{}.md", oi % 2)) } else { None },
            output,
            testcase,
            format: if spec.cram { ParserType::Cram } else { ParserType::Markdown },
            escaping: if spec.ascii { Escaper::Ascii } else { Escaper::Unicode },
            result,
        },
        must_show,
        all_tokens,
        kind,
    })
}

fn strip_ansi(s: &str) -> String {
    String::from_utf8_lossy(&strip_ansi_escapes::strip(s.as_bytes()).unwrap_or_else(|_| s.as_bytes().to_vec())).to_string()
}

pub fn check_case(c: &RenderCase) -> V {
    let built: Vec<Built> = match guard(|| {
        c.outcomes
            .iter()
            .enumerate()
            .map(|(i, s)| build(i, s, c.locations))
            .collect::<Option<Vec<_>>>()
    }) {
        Ok(Some(b)) => b,
        Ok(None) => return V::pass().label("unbuildable_skipped"),
        Err(p) => return V::fail(format!("validate crashed while building outcomes: {p}")),
    };
    let refs: Vec<&Outcome> = built.iter().map(|b| &b.outcome).collect();
    let non_ascii_fail = built.iter().any(|b| {
        b.kind == "malformed_output"
            && b.must_show.iter().any(|t| t.starts_with("Te"))
            && b.must_show.iter().any(|t| t.starts_with("To"))
    });
    let v = V::pass()
        .nt(non_ascii_fail)
        .label_if(built.iter().any(|b| b.kind == "malformed_output"), "malformed_output")
        .label_if(built.iter().any(|b| b.kind == "success"), "success")
        .label_if(built.iter().any(|b| b.kind == "timeout"), "timeout")
        .label_if(built.iter().any(|b| b.kind == "skipped"), "skipped")
        .label_if(built.iter().any(|b| b.kind == "invalid_exit_code"), "invalid_exit_code")
        .label_if(built.iter().any(|b| b.kind == "internal_error"), "internal_error")
        .label_if(built.is_empty(), "no_outcomes");
    let color = PrettyColorRenderer {
        max_surrounding_lines: c.surrounding as usize,
        absolute_line_numbers: c.absolute,
        summarize: true,
    };
    let mono = PrettyMonochromeRenderer::new(PrettyColorRenderer {
        max_surrounding_lines: c.surrounding as usize,
        absolute_line_numbers: c.absolute,
        summarize: true,
    });
    let renderers: Vec<(&str, Box<dyn Renderer>)> = vec![
        ("pretty(color)", Box::new(color)),
        ("pretty(monochrome)", Box::new(mono)),
        ("diff", Box::<DiffRenderer>::default()),
        ("json", Box::<JsonRenderer>::default()),
        ("yaml", Box::<YamlRenderer>::default()),
    ];
    let describe = || {
        built
            .iter()
            .map(|b| {
                format!(
                    "[{} expectations={:?} stdout={:?}]",
                    b.kind,
                    b.outcome.testcase.expectations.iter().map(|e| e.original_string()).collect::<Vec<_>>(),
                    truncate_str(&lossy(&b.outcome.output.stdout.to_bytes()), 300)
                )
            })
            .collect::<Vec<_>>()
            .join(" ")
    };
    for (name, r) in &renderers {
        let text = match guard(|| r.render(&refs)) {
            Err(p) => return V::fail(format!("{name} renderer crashed: {p}\noutcomes: {}", describe())),
            Ok(Err(e)) => return V::fail(format!("{name} renderer failed: {e:#}\noutcomes: {}", describe())),
            Ok(Ok(t)) => t,
        };
        match *name {
            "json" | "yaml" => {
                let value: serde_json::Value = if *name == "json" {
                    match serde_json::from_str(&text) {
                        Ok(v) => v,
                        Err(e) => return V::fail(format!("json output is not well-formed: {e}\n{}", truncate_str(&text, 600))),
                    }
                } else {
                    match serde_yaml::from_str(&text) {
                        Ok(v) => v,
                        Err(e) => return V::fail(format!("yaml output is not well-formed: {e}\n{}", truncate_str(&text, 600))),
                    }
                };
                let Some(arr) = value.as_array() else {
                    return V::fail(format!("{name} output is not a sequence"));
                };
                if arr.len() != built.len() {
                    return V::fail(format!("{name}: {} entries for {} outcomes", arr.len(), built.len()));
                }
                for (i, (entry, b)) in arr.iter().zip(built.iter()).enumerate() {
                    let kind = entry["result"]["kind"].as_str().unwrap_or("<missing>");
                    if kind != b.kind {
                        return V::fail(format!("{name}: entry {i} has result kind {kind}, expected {}", b.kind));
                    }
                }
            }
            _ => {
                let plain = strip_ansi(&text);
                for b in &built {
                    if b.kind == "malformed_output" {
                        for tok in &b.must_show {
                            if !plain.contains(tok.as_str()) {
                                return V::fail(format!(
                                    "{name}: the {} carrying token {tok} of a failed test is not shown\noutcomes: {}\nrendering:\n{}",
                                    if tok.starts_with("Te") { "unmatched expectation" } else { "unexpected output line" },
                                    describe(),
                                    truncate_str(&plain, 1500)
                                ));
                            }
                        }
                    }
                    if b.kind == "success" {
                        for tok in &b.all_tokens {
                            if plain.contains(tok.as_str()) {
                                return V::fail(format!("{name}: token {tok} of a passing test appears in the rendering"));
                            }
                        }
                    }
                }
            }
        }
    }
    v
}

fn truncate_str(s: &str, n: usize) -> String {
    if s.len() <= n {
        s.to_string()
    } else {
        let mut e = n;
        while !s.is_char_boundary(e) {
            e -= 1;
        }
        format!("{}…", &s[..e])
    }
}

pub fn property() -> Property {
    Property {
        id: "C19",
        assumptions: vec![
            "MalformedOutput outcomes come from a real TestCase::validate so that diff and test case are consistent",
            "locations are all present or all absent, as every caller does",
            "visibility is checked through unique ASCII tokens embedded in every expectation and output line (ANSI sequences stripped)",
        ],
        parts: vec![Box::new(PropPart::<RenderCase> {
            name: "render",
            rule: "0..4 outcomes of every result kind; slots produce matched pairs, expectation-only and output-only lines carrying unique tokens next to multi-byte / wide / trailing-Unicode-blank / control / invalid UTF-8 / 5000-character text; titles and commands multi-line and non-ASCII; line numbers up to 1e5; 0..7 surrounding lines, relative/absolute numbers; pretty colour+monochrome, diff, json, yaml. Non-trivial: a failed outcome with both unmatched and unexpected entries",
            quick: 60_000,
            thorough: 3_000_000,
            max_workers: 0,
            strategy: Box::new(|_| case_strategy()),
            check: Box::new(check_case),
        })],
    }
}

/// fuzz entry: decode bytes into a RenderCase (hand-rolled, no derive available)
pub fn case_from_bytes(data: &[u8]) -> Option<RenderCase> {
    let mut it = data.iter().copied();
    let mut next = move || it.next();
    let head = next()?;
    let n_out = (next()? % 4) as usize;
    let mut outcomes = vec![];
    for _ in 0..n_out {
        let kind = next()? % 5;
        let n_slots = (next()? % 7) as usize;
        let mut slots = vec![];
        for _ in 0..n_slots {
            let b = next()?;
            let t = next()?;
            slots.push(Slot { kind: b % 3, text: (t as u16) << 8, modifier: (b >> 2) % 4 });
        }
        let f = next()?;
        outcomes.push(OutcomeSpec {
            kind: if kind == 0 { 0 } else if f & 64 == 0 { 0 } else { kind },
            slots,
            final_newline: f & 1 == 1,
            title: (f >> 1) % 5,
            command: (f >> 3) % 4,
            line_number: 1 + (next()? as u32) * if f & 128 == 0 { 1 } else { 391 },
            ascii: f & 32 == 32,
            cram: false,
        });
    }
    Some(RenderCase { outcomes, locations: head & 1 == 1, surrounding: (head >> 1) % 8, absolute: head & 16 == 16 })
}
