//! C08: expectation lines parse per the documented grammar and print back equivalently.

use proptest::collection::vec;
use proptest::prelude::*;
use scrut::escaping::Escaper;
use scrut::expectation::Expectation;
use serde::{Deserialize, Serialize};

use crate::engine::*;
use crate::matcher::with_maker;

pub const KINDS: &[(&str, &str)] = &[
    ("equal", "equal"),
    ("eq", "equal"),
    ("no-eol", "no-eol"),
    ("escaped", "escaped"),
    ("esc", "escaped"),
    ("glob", "glob"),
    ("gl", "glob"),
    ("regex", "regex"),
    ("re", "regex"),
];

/// R-expect: reference parser of the documented BNF.
/// Returns (expression, long kind name, quantifier "" | "?" | "*" | "+").
/// the expression of a parsed expectation is the written one, character for character, for the
/// kinds that take it verbatim (`equal`, `no-eol`, `glob` without the escaped marker); `regex` is
/// cleaned up and `escaped` decoded on the way in, so they are not compared here
pub fn expression_as_written(got: &scrut::expectation::Expectation, line: &str) -> Result<(), String> {
    let (expr, kind, _) = r_expect(line);
    let (gk, gexpr, _, _) = got.unmake();
    let verbatim = match kind {
        "equal" | "no-eol" => true,
        "glob" => !(expr.ends_with(" (escaped)") || expr.ends_with(" (esc)")),
        _ => false,
    };
    if verbatim && gk == kind && gexpr != expr.as_bytes() {
        return Err(format!(
            "expectation line {line:?}: the expression in force is {:?}, written {:?}",
            String::from_utf8_lossy(&gexpr),
            expr
        ));
    }
    Ok(())
}

pub fn r_expect(line: &str) -> (String, &'static str, &'static str) {
    r_expect_sep(line, true)
}

/// `strict`: the separator must be the documented blank; otherwise any Unicode white space
pub fn r_expect_sep(line: &str, strict: bool) -> (String, &'static str, &'static str) {
    let whole = (line.to_string(), "equal", "");
    if !line.ends_with(')') {
        return whole;
    }
    let Some(open) = line.rfind('(') else {
        return whole;
    };
    // the group must be preceded by a blank
    let sep = match line[..open].chars().last() {
        Some(ch) if ch == ' ' || (!strict && ch.is_whitespace()) => ch,
        _ => return whole,
    };
    let content = &line[open + 1..line.len() - 1];
    let (kind_txt, quant) = match content.chars().last() {
        Some('?') => (&content[..content.len() - 1], "?"),
        Some('*') => (&content[..content.len() - 1], "*"),
        Some('+') => (&content[..content.len() - 1], "+"),
        _ => (content, ""),
    };
    let kind = if kind_txt.is_empty() {
        if quant.is_empty() {
            return whole; // `()` is not a modifier
        }
        "equal"
    } else {
        match KINDS.iter().find(|(alias, _)| *alias == kind_txt) {
            Some((_, long)) => long,
            None => return whole,
        }
    };
    (line[..open - sep.len_utf8()].to_string(), kind, quant)
}

#[derive(Clone, Debug, Serialize, Deserialize)]
pub struct LineCase {
    pub line: String,
    /// the expression was built from a well-formed regex / escaped generator, so Err is not allowed
    pub well_formed: bool,
}

const PIECES: &[&str] = &[
    "foo", "bar baz", "é", "世界", "x", " ", "  ", "\t", "()", " ()", " ( )", " (foo)", " (glob",
    "(glob)", " (glob)", " (glob) x", " (re)", " (?)", " (*)", " (+)", " (equal*)", " (escaped)",
    " (esc)", " (no-eol)", "\\", "\\t", "\\x41", "\\x4", "\\\\", "a*b", "a?b", "[", "]", "{", "}",
    "a|b", ".*", "(", ")", " (regex)", " (gl+)", "$ x", "> x", "[1]", "# c", "```", "\u{a0}(glob)",
    "\u{3000}(?)", " (Glob)", " (glob )", " ( glob)", " (glob?*)", " (??)", " (eq?)",
    "zero\u{200b}width", "soft\u{ad}hyphen", "\u{e0b0} private", "\u{feff}bom", "\u{378}",
];

fn expr_strategy() -> BoxedStrategy<String> {
    prop_oneof![
        5 => vec(proptest::sample::select(PIECES.to_vec()), 0..5).prop_map(|v| v.concat()),
        1 => "[ -~]{0,16}",
        1 => "\\PC{0,10}".prop_map(|s: String| s.replace(['\n', '\r'], "")),
    ]
    .boxed()
}

fn line_strategy() -> BoxedStrategy<LineCase> {
    let modifier = (
        proptest::option::weighted(0.8, proptest::sample::select(KINDS.iter().map(|k| k.0).collect::<Vec<_>>())),
        proptest::sample::select(vec!["", "", "?", "*", "+"]),
        prop_oneof![
            8 => Just(" "),
            1 => Just("\t"),
            1 => Just("\u{a0}"),
            1 => Just("\u{3000}"),
            1 => Just(""),
            1 => Just("  "),
        ],
    );
    let random = (expr_strategy(), proptest::option::weighted(0.7, modifier)).prop_map(|(expr, m)| {
        let line = match m {
            None => expr,
            Some((kind, quant, sep)) => format!("{expr}{sep}({}{quant})", kind.unwrap_or("")),
        };
        LineCase {
            line,
            well_formed: false,
        }
    });
    // well-formed regex / escaped expressions (reusing the C04 generators): Err is not allowed
    let regex = (crate::c04::regex_ast_strategy(), proptest::sample::select(vec!["", "?", "*", "+"]), any::<bool>())
        .prop_map(|(ast, q, short)| LineCase {
            line: format!("{} ({}{q})", ast.render(), if short { "re" } else { "regex" }),
            well_formed: true,
        });
    let escaped = (vec(crate::c04::esc_tok_strategy(), 0..8), proptest::sample::select(vec!["", "?", "*", "+"]), any::<bool>())
        .prop_map(|(toks, q, short)| LineCase {
            line: format!(
                "{} ({}{q})",
                toks.iter().map(|t| t.render()).collect::<String>(),
                if short { "esc" } else { "escaped" }
            ),
            well_formed: true,
        });
    prop_oneof![6 => random, 1 => regex, 1 => escaped].boxed()
}

fn quant_flags(q: &str) -> (bool, bool) {
    (q == "?" || q == "*", q == "*" || q == "+")
}

fn content_matches(e: &Expectation, content: &[u8]) -> Result<bool, String> {
    let mut with_nl = content.to_vec();
    with_nl.push(b'\n');
    guard(|| e.matches(&with_nl) || e.matches(content)).map_err(|p| format!("CRASH in matches: {p}"))
}

pub fn check_line(c: &LineCase) -> V {
    let line = c.line.as_str();
    if line.contains('\n') {
        return V::pass().label("lf_excluded"); // outside the domain: callers pass single lines
    }
    let (ref_expr, ref_kind, ref_quant) = r_expect(line);
    let has_tail = line.ends_with(')');
    let has_modifier = !(ref_expr == line && ref_kind == "equal" && ref_quant.is_empty());
    // a `(mod)` group separated by a non-space blank: the BNF only documents the blank
    let sep_other_blank = !has_modifier && {
        let (e, k, q) = r_expect_sep(line, false);
        !(e == line && k == "equal" && q.is_empty())
    };
    let mut v = V::pass()
        .nt(has_tail)
        .label(ref_kind)
        .label_if(has_modifier, "modifier")
        .label_if(has_tail && !has_modifier, "parenthesised_tail_is_text")
        .label_if(c.well_formed, "well_formed_expression")
        .label_if(sep_other_blank, "non_space_blank_separator");

    let parsed = match with_maker(|m| guard(|| m.parse(line))) {
        Err(p) => return V::fail(format!("parse({line:?}) crashed: {p}")),
        Ok(r) => r,
    };
    let e = match parsed {
        Err(err) => {
            let escaped_glob = ref_kind == "glob"
                && [" (escaped)", " \\(escaped\\)", " (esc)", " \\(esc\\)"]
                    .iter()
                    .any(|t| ref_expr.ends_with(t));
            let may_fail = (ref_kind == "regex" || ref_kind == "escaped" || escaped_glob)
                && !c.well_formed;
            if sep_other_blank {
                v.unasserted = true;
                return v.label("error");
            }
            if may_fail {
                return v.label("malformed_expression_rejected");
            }
            return V::fail(format!(
                "parse({line:?}) failed ({err:#}) although the line is {} per the grammar",
                if has_modifier {
                    format!("a well-formed {ref_kind} expectation")
                } else {
                    "a plain equal expectation for the whole line".to_string()
                }
            ));
        }
        Ok(e) => e,
    };
    let (kind, expression, optional, multiline) = e.unmake();
    if sep_other_blank {
        // documented separator is the blank; what scrut does with TAB / NBSP / U+3000 is not asserted
        v.unasserted = true;
    } else {
        if kind != ref_kind {
            return V::fail(format!(
                "parse({line:?}): kind `{kind}`, grammar says `{ref_kind}` (expression {ref_expr:?})"
            ));
        }
        if (optional, multiline) != quant_flags(ref_quant) {
            return V::fail(format!(
                "parse({line:?}): optional={optional} multiline={multiline}, grammar says quantifier `{ref_quant}`"
            ));
        }
        let verbatim = kind == "equal" || kind == "no-eol";
        if verbatim && expression != ref_expr.as_bytes() {
            return V::fail(format!(
                "parse({line:?}): expression {:?}, grammar says {ref_expr:?}",
                lossy(&expression)
            ));
        }
    }

    // round trip through the canonical rendering, both escapers
    for esc in [Escaper::Unicode, Escaper::Ascii] {
        let text = match guard(|| e.to_expression_string(&esc)) {
            Ok(t) => t,
            Err(p) => return V::fail(format!("to_expression_string crashed for {line:?}: {p}")),
        };
        // root-cause signatures of the print-back defects (see known_findings.json)
        // whether the code under test renders this expression with escape sequences
        let unprintable = guard(|| esc.has_unprintable(&expression)).unwrap_or(true);
        let classify = |msg: String| -> V {
            if kind != "equal" && kind != "escaped" && unprintable {
                known_or_fail("printback-nonequal-kind-with-escaped-chars", msg)
            } else if (kind == "equal" || kind == "escaped")
                && expression.ends_with(b" (no-eol)")
                && (unprintable || kind == "escaped")
            {
                known_or_fail("escaped-text-ending-in-no-eol-marker", msg)
            } else if kind == "glob"
                && [" (escaped)", " \\(escaped\\)", " (esc)", " \\(esc\\)"]
                    .iter()
                    .any(|t| expression.ends_with(t.as_bytes()))
            {
                known_or_fail("printback-glob-pattern-ending-in-escaped-marker", msg)
            } else if kind == "escaped" && !unprintable && expression.contains(&b'\\') {
                known_or_fail("printback-escaped-kind-printable-backslash", msg)
            } else if kind == "equal" && {
                // the plain text of the expectation itself ends in a modifier look-alike and is
                // printed bare (not in escaped form)
                let plain = lossy(&expression);
                let (ex, k, q) = r_expect_sep(&plain, false);
                !(ex == plain && k == "equal" && q.is_empty()) && text.starts_with(&plain)
            } {
                known_or_fail("printback-equal-text-ending-in-modifier-lookalike", msg)
            } else {
                V::fail(msg)
            }
        };
        let e2 = match with_maker(|m| guard(|| m.parse(&text))) {
            Err(p) => return V::fail(format!("parse of canonical form {text:?} crashed: {p}")),
            Ok(Err(err)) => {
                return classify(format!(
                    "{line:?} renders as {text:?} ({esc:?}) which does not parse: {err:#}"
                ))
            }
            Ok(Ok(e2)) => e2,
        };
        if (e2.optional, e2.multiline) != (e.optional, e.multiline) {
            return classify(format!(
                "{line:?} renders as {text:?} ({esc:?}) which parses with another quantifier"
            ));
        }
        let base = ref_expr.as_bytes().to_vec();
        let mut probes: Vec<Vec<u8>> = vec![base.clone(), expression.clone(), vec![], b"a".to_vec()];
        let mut p = base.clone();
        p.push(b'x');
        probes.push(p);
        let mut p = b"x".to_vec();
        p.extend_from_slice(&base);
        probes.push(p);
        if let Some((i, _)) = ref_expr.char_indices().last() {
            probes.push(ref_expr.as_bytes()[..i].to_vec());
        }
        probes.push(text.as_bytes().to_vec());
        for probe in probes {
            if probe.contains(&b'\n') {
                continue;
            }
            let (a, b) = match (content_matches(&e, &probe), content_matches(&e2, &probe)) {
                (Ok(a), Ok(b)) => (a, b),
                (Err(p), _) | (_, Err(p)) => return V::fail(p),
            };
            if a != b {
                return classify(format!(
                    "{line:?} renders as {text:?} ({esc:?}); the original {} content {:?} but the re-parsed expectation {}",
                    if a { "matches" } else { "does not match" },
                    lossy(&probe),
                    if b { "matches it" } else { "does not" }
                ));
            }
        }
    }
    v
}

pub fn property() -> Property {
    Property {
        id: "C08",
        assumptions: vec![
            "R-expect: reference parser of the BNF in website/docs/reference/fundamentals/output-expectations.md (modifier = last ` (<kind>?<quantifier>?)` group with at least one of both, separated by a blank)",
            "lines containing LF are outside the domain (every caller passes single lines)",
            "modifier groups separated by TAB / U+00A0 / U+3000 instead of a blank are generated and crash-checked but their classification is not asserted",
            "round trip compares line *contents* (with and without final LF counted as the same content) on a probe set",
        ],
        parts: vec![Box::new(PropPart::<LineCase> {
            name: "lines",
            rule: "expression text from a pool of words, Unicode, parenthesised tails (`()`, `( )`, `(foo)`, `(glob`, modifier look-alikes), backslash sequences, syntax tokens; optional modifier from every kind alias x quantifier with blank / TAB / NBSP / U+3000 / no separator; plus well-formed regex (C04 AST) and escaped (C04 tokens) expressions. Non-trivial: the line ends in a parenthesised tail",
            quick: 300_000,
            thorough: 20_000_000,
            max_workers: 0,
            strategy: Box::new(|_| line_strategy()),
            check: Box::new(check_line),
        })],
    }
}
