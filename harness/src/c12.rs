//! C12: shell state carries from one test case to the next as if run in one shell.
//! Stateful generation (history of snippets), differential against one real bash session.

use proptest::collection::vec;
use proptest::prelude::*;
use serde::{Deserialize, Serialize};

use crate::engine::*;
use crate::execchild::*;
use crate::proc::*;

const VALUES: &[&str] = &[
    "plain",
    "with space",
    "",
    "single'quote",
    "double\"quote",
    "dollar $HOME $(id)",
    "back\\slash \\n",
    "line1\nline2",
    "tab\there",
    "glob * ? [a-z]",
    "ünï 世界",
    "declare -r looks like readonly",
    "line1\ndeclare -r X=\"1\"",
    "ends with backslash\\",
    "-leading dash",
    "a=b c=d",
    "#hash",
    "  padded  ",
];
const SCALARS: &[&str] = &["V1", "V2", "code", "i", "line"];
const FUNCS: &[&str] = &["f1", "f2", "code"];
// the last three are commands the runner template itself uses when it persists the state
const ALIASES: &[&str] = &["a1", "f2", "ll", "grep", "sed", "tail"];
const SET_OPTS: &[&str] = &["noclobber", "nounset", "noglob", "pipefail", "allexport", "physical", "errexit"];
const SHOPTS: &[&str] = &["nullglob", "dotglob", "extglob", "nocasematch", "globstar"];
const DIRS: &[&str] = &["d1", "d1/d2", "with space", "ünï"];

#[derive(Clone, Debug, Serialize, Deserialize)]
pub enum Snip {
    Export { name: u8, value: u8 },
    Assign { name: u8, value: u8 },
    ArraySet { values: Vec<u8> },
    ArrayAppend { value: u8 },
    ArrayUnsetElem { index: u8 },
    AssocSet { pairs: Vec<(u8, u8)> },
    AssocPut { key: u8, value: u8 },
    Unset { name: u8 },
    UnsetArray { assoc: bool },
    FuncDef { name: u8, body: u8 },
    FuncUnset { name: u8 },
    /// `shopt -s extglob` and, on the next line, a function whose body uses an extended pattern
    ExtglobFunc { name: u8, body: u8 },
    AliasDef { name: u8, body: u8 },
    Unalias { name: u8 },
    SetOpt { opt: u8, on: bool },
    Shopt { opt: u8, on: bool },
    Mkdir { dir: u8 },
    Cd { dir: u8 },
    CdUp,
    Pushd { dir: u8 },
    Popd,
}

fn sq(s: &str) -> String {
    format!("'{}'", s.replace('\'', "'\"'\"'"))
}

fn pick<'a>(pool: &'a [&'a str], i: u8) -> &'a str {
    pool[i as usize % pool.len()]
}

impl Snip {
    pub fn render(&self) -> String {
        match self {
            Snip::Export { name, value } => format!("export {}={}", pick(SCALARS, *name), sq(pick(VALUES, *value))),
            Snip::Assign { name, value } => format!("{}={}", pick(SCALARS, *name), sq(pick(VALUES, *value))),
            Snip::ArraySet { values } => format!(
                "ARR=({})",
                values.iter().map(|v| sq(pick(VALUES, *v))).collect::<Vec<_>>().join(" ")
            ),
            Snip::ArrayAppend { value } => format!("ARR+=({})", sq(pick(VALUES, *value))),
            Snip::ArrayUnsetElem { index } => format!("unset 'ARR[{}]'", index % 4),
            Snip::AssocSet { pairs } => format!(
                "declare -A AA=({})",
                pairs
                    .iter()
                    .map(|(k, v)| format!("[{}]={}", sq(pick(&["k1", "k 2", "ünï", "x*"], *k)), sq(pick(VALUES, *v))))
                    .collect::<Vec<_>>()
                    .join(" ")
            ),
            Snip::AssocPut { key, value } => format!(
                "declare -A AA; AA[{}]={}",
                sq(pick(&["k1", "k 2", "ünï", "x*"], *key)),
                sq(pick(VALUES, *value))
            ),
            Snip::Unset { name } => format!("unset {}", pick(SCALARS, *name)),
            Snip::UnsetArray { assoc } => format!("unset {}", if *assoc { "AA" } else { "ARR" }),
            Snip::FuncDef { name, body } => format!(
                "function {} {{ {}; }}",
                pick(FUNCS, *name),
                pick(&["echo one", "echo two \"$@\"", "local code=5; return $code", "a1 || true", "printf '%s\\n' \"a  b\" 'c\\d'"], *body)
            ),
            Snip::FuncUnset { name } => format!("unset -f {}", pick(FUNCS, *name)),
            Snip::ExtglobFunc { name, body } => format!(
                "shopt -s extglob\nfunction {} {{ {}; }}",
                pick(FUNCS, *name),
                pick(
                    &[
                        "case \"$1\" in @(a|b)) echo ab;; *) echo other;; esac",
                        "echo \"${1##+(0)}\"",
                        "[[ $1 == !(x|y) ]] && echo not-xy"
                    ],
                    *body
                )
            ),
            Snip::AliasDef { name, body } => format!(
                "alias {}={}",
                pick(ALIASES, *name),
                sq(pick(&["echo aliased", "ls -la", "echo 'with quote'", "printf \"%s\\n\" x", "grep -n", "echo"], *body))
            ),
            Snip::Unalias { name } => format!("unalias {} 2>/dev/null", pick(ALIASES, *name)),
            Snip::SetOpt { opt, on } => format!("set {}o {}", if *on { "-" } else { "+" }, pick(SET_OPTS, *opt)),
            Snip::Shopt { opt, on } => format!("shopt -{} {}", if *on { "s" } else { "u" }, pick(SHOPTS, *opt)),
            Snip::Mkdir { dir } => format!("mkdir -p {}", sq(pick(DIRS, *dir))),
            Snip::Cd { dir } => format!("cd {} 2>/dev/null", sq(pick(DIRS, *dir))),
            Snip::CdUp => "cd ..".into(),
            Snip::Pushd { dir } => format!("pushd {} >/dev/null 2>&1", sq(pick(DIRS, *dir))),
            Snip::Popd => "popd >/dev/null 2>&1".into(),
        }
    }
    fn class(&self) -> &'static str {
        match self {
            Snip::Export { .. } => "exported_variable",
            Snip::Assign { .. } | Snip::Unset { .. } => "shell_variable",
            Snip::ArraySet { .. } | Snip::ArrayAppend { .. } | Snip::ArrayUnsetElem { .. } => "indexed_array",
            Snip::AssocSet { .. } | Snip::AssocPut { .. } => "associative_array",
            Snip::UnsetArray { .. } => "indexed_array",
            Snip::FuncDef { .. } | Snip::FuncUnset { .. } | Snip::ExtglobFunc { .. } => "function",
            Snip::AliasDef { .. } | Snip::Unalias { .. } => "alias",
            Snip::SetOpt { .. } => "set_option",
            Snip::Shopt { .. } => "shopt_option",
            Snip::Mkdir { .. } | Snip::Cd { .. } | Snip::CdUp => "working_directory",
            Snip::Pushd { .. } | Snip::Popd => "directory_stack",
        }
    }
    fn is_modify(&self) -> bool {
        matches!(
            self,
            Snip::Unset { .. }
                | Snip::UnsetArray { .. }
                | Snip::ArrayAppend { .. }
                | Snip::ArrayUnsetElem { .. }
                | Snip::AssocPut { .. }
                | Snip::FuncUnset { .. }
                | Snip::Unalias { .. }
                | Snip::Popd
                | Snip::CdUp
        ) || matches!(self, Snip::SetOpt { on: false, .. } | Snip::Shopt { on: false, .. })
    }
    /// pure state change without file system effect (may be marked detached)
    fn pure(&self) -> bool {
        matches!(self, Snip::Export { .. } | Snip::Assign { .. } | Snip::AliasDef { .. } | Snip::FuncDef { .. })
    }
}

#[derive(Clone, Debug, Serialize, Deserialize)]
pub struct History {
    pub steps: Vec<(Snip, bool)>,
}

const PROBE: &str = r#"{ set +o; shopt -p; alias -p
for __n in f1 f2 code; do declare -f "$__n" || echo "no function $__n"; done
for __n in V1 V2 ARR code i line; do declare -p "$__n" 2>/dev/null || echo "unset $__n"; done
if declare -p AA >/dev/null 2>&1; then echo "AA attrs=${AA@a}"; for __k in "${!AA[@]}"; do printf 'AA[%s]=%s\n' "$__k" "${AA[$__k]}"; done | LC_ALL=C sort; else echo "unset AA"; fi
pwd -P; dirs -l -p; }"#;

fn snip_strategy() -> BoxedStrategy<Snip> {
    prop_oneof![
        3 => (any::<u8>(), any::<u8>()).prop_map(|(name, value)| Snip::Export { name, value }),
        3 => (any::<u8>(), any::<u8>()).prop_map(|(name, value)| Snip::Assign { name, value }),
        2 => vec(any::<u8>(), 0..4).prop_map(|values| Snip::ArraySet { values }),
        1 => any::<u8>().prop_map(|value| Snip::ArrayAppend { value }),
        1 => any::<u8>().prop_map(|index| Snip::ArrayUnsetElem { index }),
        2 => vec((any::<u8>(), any::<u8>()), 0..3).prop_map(|pairs| Snip::AssocSet { pairs }),
        1 => (any::<u8>(), any::<u8>()).prop_map(|(key, value)| Snip::AssocPut { key, value }),
        2 => any::<u8>().prop_map(|name| Snip::Unset { name }),
        1 => any::<bool>().prop_map(|assoc| Snip::UnsetArray { assoc }),
        3 => (any::<u8>(), any::<u8>()).prop_map(|(name, body)| Snip::FuncDef { name, body }),
        1 => any::<u8>().prop_map(|name| Snip::FuncUnset { name }),
        1 => (any::<u8>(), any::<u8>()).prop_map(|(name, body)| Snip::ExtglobFunc { name, body }),
        3 => (any::<u8>(), any::<u8>()).prop_map(|(name, body)| Snip::AliasDef { name, body }),
        1 => any::<u8>().prop_map(|name| Snip::Unalias { name }),
        3 => (any::<u8>(), any::<bool>()).prop_map(|(opt, on)| Snip::SetOpt { opt, on }),
        2 => (any::<u8>(), any::<bool>()).prop_map(|(opt, on)| Snip::Shopt { opt, on }),
        2 => any::<u8>().prop_map(|dir| Snip::Mkdir { dir }),
        2 => any::<u8>().prop_map(|dir| Snip::Cd { dir }),
        1 => Just(Snip::CdUp),
        2 => any::<u8>().prop_map(|dir| Snip::Pushd { dir }),
        1 => Just(Snip::Popd),
    ]
    .boxed()
}

fn history_strategy() -> BoxedStrategy<History> {
    vec((snip_strategy(), proptest::bool::weighted(0.08)), 1..=8)
        .prop_map(|steps| History {
            steps: steps.into_iter().map(|(s, d)| { let d = d && s.pure(); (s, d) }).collect(),
        })
        .boxed()
}

/// known root causes, by what the history contains
fn classify(h: &History, msg: String) -> V {
    let has = |f: &dyn Fn(&Snip) -> bool| h.steps.iter().any(|(s, d)| !*d && f(s));
    if has(&|s| matches!(s, Snip::SetOpt { opt, on: true } if pick(SET_OPTS, *opt) == "nounset")) {
        return known_or_fail("state-restore-under-nounset", msg);
    }
    V::fail(msg)
}

fn check_history(h: &History) -> V {
    let dir = match CaseDir::new("C12") {
        Ok(d) => d,
        Err(e) => inconclusive(&format!("scratch: {e}")),
    };
    // two separate, identical trees, deep enough that `cd ..` never leaves them
    let deep = "l1/l2/l3/l4/l5/l6/l7/l8/l9/w";
    let sut_root = dir.path().join("S");
    let ref_root = dir.path().join("R");
    let sut_dir = sut_root.join(deep);
    let ref_dir = ref_root.join(deep);
    std::fs::create_dir_all(&sut_dir).ok();
    std::fs::create_dir_all(&ref_dir).ok();
    // system under test: every snippet and every probe is its own test case
    let mut tests = vec![];
    for (s, detached) in &h.steps {
        tests.push(ExecTest {
            expr: s.render(),
            output_stream: Some(1),
            detached: if *detached { Some(true) } else { None },
            line: 1,
            ..Default::default()
        });
        tests.push(ExecTest {
            expr: PROBE.to_string(),
            output_stream: Some(1),
            line: 1,
            ..Default::default()
        });
    }
    let case = ExecCase {
        executor: "stateful".into(),
        work: sut_dir.to_string_lossy().to_string(),
        tmp: dir.tmp().to_string_lossy().to_string(),
        total_timeout_ms: Some(60_000),
        tests,
        ..Default::default()
    };
    let classes: std::collections::BTreeSet<&'static str> = h.steps.iter().map(|(s, _)| s.class()).collect();
    let modify_after_define = h.steps.iter().skip(1).any(|(s, _)| s.is_modify());
    let mut v = V::pass()
        .nt(classes.len() >= 2 && modify_after_define)
        .label_if(h.steps.iter().any(|(_, d)| *d), "detached_snippet");
    for c in &classes {
        v = v.label(c);
    }
    let script_dump = || {
        h.steps
            .iter()
            .map(|(s, d)| format!("{}{}", if *d { "[detached] " } else { "" }, s.render()))
            .collect::<Vec<_>>()
            .join("\n")
    };
    let result = match run_child(&dir, &case, 120) {
        ChildOutcome::Crashed(m) => return V::fail(format!("executor crashed: {m}\nhistory:\n{}", script_dump())),
        ChildOutcome::Done(r) => r,
    };
    if let Some(e) = &result.error {
        return classify(h, format!("execute_all failed: {e}\nhistory:\n{}", script_dump()));
    }
    // reference: one bash process fed the same snippets (detached ones omitted) and probes
    let mut script = String::from("shopt -s expand_aliases\n");
    for (k, (s, detached)) in h.steps.iter().enumerate() {
        if !*detached {
            script.push_str(&s.render());
            script.push('\n');
        }
        script.push_str(&format!("echo '@@PROBE-BEGIN {k}@@'\n{PROBE}\necho '@@PROBE-END {k}@@'\n"));
    }
    let mut cmd = std::process::Command::new("/bin/bash");
    cmd.current_dir(&ref_dir)
        .env_clear()
        .env("PATH", "/usr/local/bin:/usr/bin:/bin")
        .env("HOME", dir.path())
        .env("TMPDIR", dir.tmp())
        .env("LANG", "C")
        .env("LC_ALL", "C")
        .env("SHELL", "/bin/bash");
    let reference = match run_cmd(cmd, Some(script.as_bytes()), 60) {
        Ok(r) => r,
        Err(e) => inconclusive(&format!("reference bash: {e}")),
    };
    let ref_out = String::from_utf8_lossy(&reference.stdout).to_string();
    let normalize = |s: &str, root: &std::path::Path| s.replace(&root.to_string_lossy().to_string(), "@W");
    for k in 0..h.steps.len() {
        let begin = format!("@@PROBE-BEGIN {k}@@\n");
        let end = format!("@@PROBE-END {k}@@\n");
        let Some(b) = ref_out.find(&begin) else {
            // the reference session died (e.g. unbound variable under nounset): nothing to compare
            v.unasserted = true;
            return v.label("reference_session_ended_early");
        };
        let Some(e) = ref_out[b..].find(&end) else {
            v.unasserted = true;
            return v.label("reference_session_ended_early");
        };
        let expected = normalize(&ref_out[b + begin.len()..b + e], &ref_root);
        let Some(o) = result.outputs.get(2 * k + 1) else {
            return classify(h, format!("no output for probe {k}\nhistory:\n{}", script_dump()));
        };
        let got = normalize(&String::from_utf8_lossy(&o.stdout_bytes()), &sut_root);
        if got != expected {
            let diff: Vec<String> = {
                let g: Vec<&str> = got.lines().collect();
                let x: Vec<&str> = expected.lines().collect();
                let mut d = vec![];
                for l in &x {
                    if !g.contains(l) {
                        d.push(format!("  single session only: {l}"));
                    }
                }
                for l in &g {
                    if !x.contains(l) {
                        d.push(format!("  scrut only:          {l}"));
                    }
                }
                d.truncate(12);
                d
            };
            return classify(
                h,
                format!(
                    "after step {} the state seen by the next test case differs from a single bash session (probe exit status {}):\n{}\nhistory:\n{}\nstderr of the probe: {}",
                    k + 1,
                    o.status,
                    diff.join("\n"),
                    script_dump(),
                    truncate(&o.stderr_bytes(), 300)
                ),
            );
        }
    }
    v
}

pub fn property() -> Property {
    Property {
        id: "C12",
        assumptions: vec![
            "decided against the one bash in this image (5.2); `the bash in PATH` is not varied",
            "reference = one /bin/bash process reading the same snippets and probes from stdin with the same environment and an identical (initially empty) directory tree; `shopt -s expand_aliases` as in the runner template",
            "only probe stdout is compared (error texts carry line numbers that legitimately differ); detached snippets are pure state changes and are omitted from the reference",
            "histories whose reference session ends early (a failing snippet under errexit, an unbound variable under nounset) are not asserted",
        ],
        parts: vec![Box::new(PropPart::<History> {
            name: "history",
            rule: "history of 1..8 snippets over state classes (exported / shell variables incl. the names code, i, line; indexed and associative arrays with append / element unset; functions incl. redefinition and a function called code; aliases incl. alias and function over the same word; set -o / shopt options; mkdir / cd / pushd / popd) with hostile values (blanks, quotes, LF, TAB, $, backslashes, globs, non-ASCII, `declare -r` look-alikes); after every snippet a probe prints set +o, shopt -p, alias -p, declare -f, declare -p, pwd -P, dirs. Non-trivial: >=2 state classes and a modify/unset after a define",
            quick: 800,
            thorough: 20_000,
            max_workers: 14,
            strategy: Box::new(|_| history_strategy()),
            check: Box::new(check_history),
        })],
    }
}
