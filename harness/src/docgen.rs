//! G-doc: Markdown document model rendered to text, with the test list known by construction.

use std::collections::BTreeMap;
use std::time::Duration;

use proptest::collection::vec;
use proptest::prelude::*;
use scrut::config::{DocumentConfig, OutputStreamControl, TestCaseConfig, TestCaseWait};
use serde::{Deserialize, Serialize};

use crate::engine::pick_idx;

#[derive(Clone, Debug, Default, Serialize, Deserialize, PartialEq)]
pub struct InlineCfg {
    pub timeout_s: Option<u64>,
    pub keep_crlf: Option<bool>,
    /// 1 stdout 2 stderr 3 combined
    pub output_stream: Option<u8>,
    pub detached: Option<bool>,
    pub env: Option<(String, String)>,
    pub wait_s: Option<u64>,
}

impl InlineCfg {
    pub fn is_empty(&self) -> bool {
        *self == InlineCfg::default()
    }
    pub fn render(&self) -> String {
        let mut parts = vec![];
        if let Some(t) = self.timeout_s {
            parts.push(format!("timeout: {t}s"));
        }
        if let Some(k) = self.keep_crlf {
            parts.push(format!("keep_crlf: {k}"));
        }
        if let Some(o) = self.output_stream {
            parts.push(format!("output_stream: {}", ["", "stdout", "stderr", "combined"][o as usize]));
        }
        if let Some(d) = self.detached {
            parts.push(format!("detached: {d}"));
        }
        if let Some((k, v)) = &self.env {
            parts.push(format!("environment: {{{k}: \"{v}\"}}"));
        }
        if let Some(w) = self.wait_s {
            parts.push(format!("wait: {w}s"));
        }
        format!("{{{}}}", parts.join(", "))
    }
    pub fn apply(&self, base: &mut TestCaseConfig) {
        if let Some(t) = self.timeout_s {
            base.timeout = Some(Duration::from_secs(t));
        }
        if let Some(k) = self.keep_crlf {
            base.keep_crlf = Some(k);
        }
        if let Some(o) = self.output_stream {
            base.output_stream = Some(match o {
                1 => OutputStreamControl::Stdout,
                2 => OutputStreamControl::Stderr,
                _ => OutputStreamControl::Combined,
            });
        }
        if let Some(d) = self.detached {
            base.detached = Some(d);
        }
        if let Some((k, v)) = &self.env {
            base.environment.insert(k.clone(), v.clone());
        }
        if let Some(w) = self.wait_s {
            base.wait = Some(TestCaseWait {
                timeout: Duration::from_secs(w),
                path: None,
            });
        }
    }
}

#[derive(Clone, Debug, Default, Serialize, Deserialize, PartialEq)]
pub struct FrontSpec {
    pub total_timeout_s: Option<u64>,
    pub strip_ansi: Option<bool>,
    pub skip_code: Option<i32>,
    pub prepend: Vec<String>,
    /// `---` directly followed by `---`
    pub empty: bool,
}

impl FrontSpec {
    pub fn render(&self) -> Vec<String> {
        let mut l = vec!["---".to_string()];
        if !self.empty {
            if let Some(t) = self.total_timeout_s {
                l.push(format!("total_timeout: {t}s"));
            }
            if self.strip_ansi.is_some() || self.skip_code.is_some() {
                l.push("defaults:".into());
                if let Some(s) = self.strip_ansi {
                    l.push(format!("  strip_ansi_escaping: {s}"));
                }
                if let Some(s) = self.skip_code {
                    l.push(format!("  skip_document_code: {s}"));
                }
            }
            if !self.prepend.is_empty() {
                l.push("prepend:".into());
                for p in &self.prepend {
                    l.push(format!("  - {p}"));
                }
            }
            if l.len() == 1 {
                l.push("shell: bash".into());
            }
        }
        l.push("---".into());
        l
    }
    pub fn document_config(&self) -> DocumentConfig {
        let mut c = DocumentConfig::default_markdown();
        if self.empty {
            return c;
        }
        if let Some(t) = self.total_timeout_s {
            c.total_timeout = Some(Duration::from_secs(t));
        }
        c.defaults.strip_ansi_escaping = self.strip_ansi;
        c.defaults.skip_document_code = self.skip_code;
        c.prepend = self.prepend.iter().map(std::path::PathBuf::from).collect();
        if self.total_timeout_s.is_none() && self.strip_ansi.is_none() && self.skip_code.is_none() && self.prepend.is_empty() {
            c.shell = Some("bash".into());
        }
        c
    }
}

#[derive(Clone, Debug, Serialize, Deserialize)]
pub struct ScrutBlk {
    pub fence: u8,
    /// blanks between the language and `{`
    pub pad: u8,
    pub cfg: Option<InlineCfg>,
    pub comments: Vec<String>,
    /// first element follows `$ `, the others `> `
    pub cmd: Vec<String>,
    pub body: Vec<String>,
    /// expected exit code and the position of the `[n]` line within the body
    pub exit: Option<(u8, u16)>,
    /// the closing fence has this many more backticks than the opening one (CommonMark: a closing
    /// fence is at least as long as the opening fence); 3 = same length plus a tailing blank
    #[serde(default)]
    pub close_extra: u8,
    /// lines between the leading comments and the `$` line (the line parser reads them as
    /// expectations that precede the command; the documentation does not speak about them)
    #[serde(default)]
    pub pre: Vec<String>,
}

/// lines that may stand before the `$` line: no comment, command, continuation or exit code
pub const PRE_LINES: &[&str] = &["", "stray text", "  ", "leftover (glob?)"];

pub fn closing_fence(n: u8, close_extra: u8) -> String {
    match close_extra {
        0 => fence(n),
        3 => format!("{} ", fence(n)),
        k => fence(n + k),
    }
}

#[derive(Clone, Debug, Serialize, Deserialize)]
pub enum Blk {
    Prose { lines: Vec<String> },
    Heading { level: u8, text: String },
    Scrut(ScrutBlk),
    Foreign {
        fence: u8,
        info: String,
        body: Vec<String>,
        #[serde(default)]
        close_extra: u8,
    },
    /// a scrut block without any line
    EmptyScrut { fence: u8 },
    /// a scrut block that has only comments
    CommentOnlyScrut { fence: u8, comments: Vec<String> },
    /// a scrut block that has only an exit code line (no `$`): no test, no effect on others
    ExitOnlyScrut { fence: u8, code: u8 },
    // ---- malformed constructs (extended documents)
    /// expectation lines but no `$`
    NoCommandScrut { fence: u8, body: Vec<String> },
    /// fenced block without language
    NoLanguage { fence: u8, body: Vec<String> },
    /// `{cfg}` followed by blanks
    ScrutCfgTrailingBlank(ScrutBlk),
    /// language followed by a blank only
    ScrutLangTrailingBlank(ScrutBlk),
}

impl Blk {
    pub fn malformed(&self) -> bool {
        matches!(
            self,
            Blk::NoCommandScrut { .. } | Blk::NoLanguage { .. }
        )
    }
}

#[derive(Clone, Debug, Serialize, Deserialize)]
pub enum Tail {
    None,
    /// the document is cut after this many lines
    TruncateAt(u16),
    UnterminatedForeign { fence: u8, info: String, body: Vec<String> },
    UnterminatedScrut(ScrutBlk),
    /// only used when there is no front matter: document starts with `---` that is never closed
    UnterminatedFrontMatter,
}

#[derive(Clone, Debug, Serialize, Deserialize)]
pub struct Doc {
    pub front: Option<FrontSpec>,
    pub blocks: Vec<Blk>,
    /// number of blank lines after each block; 0 is honoured only between a prose / heading block
    /// and a fenced block (either order), otherwise it means 1
    pub gaps: Vec<u8>,
    pub tail: Tail,
    pub crlf: bool,
    pub final_newline: bool,
}

#[derive(Clone, Debug, PartialEq)]
pub enum TitleExpect {
    /// asserted
    Exactly(String),
    /// the documentation is ambiguous here
    Unasserted,
}

#[derive(Clone, Debug)]
pub struct ExpectedTest {
    pub block_index: usize,
    pub command: String,
    pub expectations: Vec<String>,
    pub exit_code: Option<i32>,
    pub config: TestCaseConfig,
    /// 1-based line of the `$` line
    pub line_number: usize,
    pub title: TitleExpect,
    /// 0-based line index of the closing fence (usize::MAX if unterminated)
    pub closed_at: usize,
    /// 0-based index of the opening fence line
    pub opened_at: usize,
    /// how many of the leading `expectations` stand before the `$` line
    pub pre_count: usize,
}

pub struct Rendered {
    pub text: String,
    pub lines: Vec<String>,
    pub tests: Vec<ExpectedTest>,
    pub doc_config: DocumentConfig,
    /// 0-based line index where the first malformed construct starts (usize::MAX if none)
    pub first_malformed_line: usize,
    /// line spans (start, end exclusive) of every block, by block index
    pub spans: Vec<(usize, usize)>,
    /// a block the parser must reject or which makes the result unasserted beyond the prefix
    pub has_malformed: bool,
}

fn fence(n: u8) -> String {
    "`".repeat(n as usize)
}

pub fn is_title_line(line: &str) -> bool {
    let t = line.trim();
    t.chars().next().map(|c| c.is_alphabetic()).unwrap_or(false)
}

fn push_scrut(lines: &mut Vec<String>, b: &ScrutBlk, cfg_suffix: &str, lang_suffix: &str) -> (usize, Vec<String>, Option<i32>) {
    let mut open = format!("{}scrut{}", fence(b.fence), lang_suffix);
    if let Some(cfg) = &b.cfg {
        if !cfg.is_empty() {
            open.push_str(&" ".repeat(b.pad as usize));
            open.push_str(&cfg.render());
            open.push_str(cfg_suffix);
        }
    }
    lines.push(open);
    for c in &b.comments {
        lines.push(c.clone());
    }
    let mut exps = vec![];
    for l in &b.pre {
        lines.push(l.clone());
        exps.push(l.clone());
    }
    let cmd_line = lines.len();
    for (i, c) in b.cmd.iter().enumerate() {
        lines.push(format!("{}{}", if i == 0 { "$ " } else { "> " }, c));
    }
    let mut body: Vec<(bool, String)> = b.body.iter().map(|l| (false, l.clone())).collect();
    let mut exit = None;
    if let Some((code, pos)) = b.exit {
        let at = pick_idx(pos, body.len() + 1);
        body.insert(at, (true, format!("[{code}]")));
        exit = Some(code as i32);
    }
    // the line directly after the command must not read as a continuation of the command
    // (after an exit code line a `> x` line is an expectation again)
    if let Some(first) = body.first_mut() {
        if first.1.starts_with("> ") {
            first.1 = "first line".into();
        }
    }
    for (is_exit, l) in body {
        if !is_exit {
            exps.push(l.clone());
        }
        lines.push(l);
    }
    (cmd_line, exps, exit)
}

pub fn render(doc: &Doc) -> Rendered {
    let mut lines: Vec<String> = vec![];
    let mut tests = vec![];
    let mut spans = vec![];
    let mut first_malformed_line = usize::MAX;
    let mut has_malformed = false;
    let doc_config = doc
        .front
        .as_ref()
        .map(|f| f.document_config())
        .unwrap_or_else(DocumentConfig::default_markdown);
    if let Some(f) = &doc.front {
        lines.extend(f.render());
        lines.push(String::new());
    } else if matches!(doc.tail, Tail::UnterminatedFrontMatter) {
        first_malformed_line = 0;
        has_malformed = true;
        lines.push("---".into());
        lines.push("total_timeout: 3s".into());
        lines.push(String::new());
    }
    let base_cfg = |inline: Option<&InlineCfg>| -> TestCaseConfig {
        let mut c = TestCaseConfig::default_markdown();
        if let Some(f) = &doc.front {
            if !f.empty {
                if let Some(s) = f.strip_ansi {
                    c.strip_ansi_escaping = Some(s);
                }
                if let Some(s) = f.skip_code {
                    c.skip_document_code = Some(s);
                }
            }
        }
        if let Some(i) = inline {
            i.apply(&mut c);
        }
        c
    };
    // what kind of construct directly precedes (separated by blank lines only)
    #[derive(Clone)]
    enum Prev {
        Start,
        Title(String),
        Other,
    }
    let mut prev = Prev::Start;
    for (bi, blk) in doc.blocks.iter().enumerate() {
        let start = lines.len();
        let mut next_prev = Prev::Other;
        match blk {
            Blk::Prose { lines: pl } => {
                lines.extend(pl.iter().cloned());
                if !pl.is_empty() && pl.iter().all(|l| is_title_line(l)) {
                    next_prev = Prev::Title(
                        pl.iter().map(|l| l.trim().to_string()).collect::<Vec<_>>().join("\n"),
                    );
                }
            }
            Blk::Heading { level, text } => {
                lines.push(format!("{} {}", "#".repeat(*level as usize), text));
                next_prev = Prev::Title(text.trim().to_string());
            }
            Blk::Scrut(b) | Blk::ScrutCfgTrailingBlank(b) | Blk::ScrutLangTrailingBlank(b) => {
                let (cfg_suffix, lang_suffix) = match blk {
                    Blk::ScrutCfgTrailingBlank(_) => (" ", ""),
                    Blk::ScrutLangTrailingBlank(_) => ("", " "),
                    _ => ("", ""),
                };
                let opened_at = lines.len();
                let (cmd_line, exps, exit) = push_scrut(&mut lines, b, cfg_suffix, lang_suffix);
                let closed_at = lines.len();
                lines.push(closing_fence(b.fence, b.close_extra));
                let title = match &prev {
                    Prev::Start => TitleExpect::Exactly(String::new()),
                    Prev::Title(t) => TitleExpect::Exactly(t.clone()),
                    Prev::Other => TitleExpect::Unasserted,
                };
                tests.push(ExpectedTest {
                    block_index: bi,
                    command: b.cmd.join("\n"),
                    expectations: exps,
                    exit_code: exit,
                    config: base_cfg(b.cfg.as_ref()),
                    line_number: cmd_line + 1,
                    title,
                    closed_at,
                    opened_at,
                    pre_count: b.pre.len(),
                });
            }
            Blk::Foreign { fence: f, info, body, close_extra } => {
                lines.push(format!("{}{}", fence(*f), info));
                lines.extend(body.iter().cloned());
                lines.push(closing_fence(*f, *close_extra));
            }
            Blk::ExitOnlyScrut { fence: f, code } => {
                lines.push(format!("{}scrut", fence(*f)));
                lines.push(format!("[{code}]"));
                lines.push(fence(*f));
            }
            Blk::EmptyScrut { fence: f } => {
                lines.push(format!("{}scrut", fence(*f)));
                lines.push(fence(*f));
            }
            Blk::CommentOnlyScrut { fence: f, comments } => {
                lines.push(format!("{}scrut", fence(*f)));
                lines.extend(comments.iter().cloned());
                lines.push(fence(*f));
            }
            Blk::NoCommandScrut { fence: f, body } => {
                first_malformed_line = first_malformed_line.min(lines.len());
                has_malformed = true;
                lines.push(format!("{}scrut", fence(*f)));
                lines.extend(body.iter().cloned());
                lines.push(fence(*f));
            }
            Blk::NoLanguage { fence: f, body } => {
                first_malformed_line = first_malformed_line.min(lines.len());
                has_malformed = true;
                lines.push(fence(*f));
                lines.extend(body.iter().cloned());
                lines.push(fence(*f));
            }
        }
        spans.push((start, lines.len()));
        let fenced = |b: &Blk| matches!(b, Blk::Scrut(_) | Blk::Foreign { .. } | Blk::EmptyScrut { .. } | Blk::CommentOnlyScrut { .. } | Blk::ExitOnlyScrut { .. });
        let text = |b: &Blk| matches!(b, Blk::Prose { .. } | Blk::Heading { .. });
        let tight_ok = doc.blocks.get(bi + 1).map(|n| (fenced(blk) && text(n)) || (text(blk) && fenced(n))).unwrap_or(false);
        let gap = match doc.gaps.get(bi).copied().unwrap_or(1) {
            0 if tight_ok => 0,
            g => g.max(1),
        };
        for _ in 0..gap {
            lines.push(String::new());
        }
        prev = next_prev;
    }
    match &doc.tail {
        Tail::None | Tail::UnterminatedFrontMatter => {}
        Tail::TruncateAt(n) => {
            let at = pick_idx(*n, lines.len() + 1);
            lines.truncate(at);
            first_malformed_line = first_malformed_line.min(at);
            has_malformed = true;
        }
        Tail::UnterminatedForeign { fence: f, info, body } => {
            first_malformed_line = first_malformed_line.min(lines.len());
            has_malformed = true;
            lines.push(format!("{}{}", fence(*f), info));
            lines.extend(body.iter().cloned());
        }
        Tail::UnterminatedScrut(b) => {
            first_malformed_line = first_malformed_line.min(lines.len());
            has_malformed = true;
            let opened_at = lines.len();
            let (cmd_line, exps, exit) = push_scrut(&mut lines, b, "", "");
            tests.push(ExpectedTest {
                block_index: usize::MAX,
                command: b.cmd.join("\n"),
                expectations: exps,
                exit_code: exit,
                config: base_cfg(b.cfg.as_ref()),
                line_number: cmd_line + 1,
                title: TitleExpect::Unasserted,
                closed_at: usize::MAX,
                opened_at,
                pre_count: b.pre.len(),
            });
        }
    }
    let eol = if doc.crlf { "\r\n" } else { "\n" };
    let mut text = lines.join(eol);
    // a tailing empty line only exists in the text if it is terminated
    let last_empty = lines.last().map(|l| l.is_empty()).unwrap_or(false);
    if (doc.final_newline || last_empty) && !lines.is_empty() {
        text.push_str(eol);
    }
    Rendered {
        text,
        lines,
        tests,
        doc_config,
        first_malformed_line,
        spans,
        has_malformed,
    }
}

// ---------------------------------------------------------------------------
// strategies

pub const TITLE_PROSE: &[&str] = &[
    "Some plain sentence.",
    "Ünïcode text starts here",
    "List of things:",
    "A line with `inline code` inside",
    "Text with ``` in the middle",
    "emphasis *inside* the line",
    "  indented by two blanks",
    "Ends with a colon:",
    "日本語のテキスト",
];
pub const OTHER_PROSE: &[&str] = &[
    "- list item",
    "> block quote",
    "1. numbered item",
    "**bold start**",
    "`$ cmd` inline code at the start",
    "| table | row |",
    "[link](http://example.com)",
    "<!-- comment -->",
    "***",
    "$ not in a block",
    "[1]",
];
/// prose that starts with backticks without being a fence (CommonMark: a fence has >= 3 backticks
/// and an info string without backticks)
pub const BACKTICK_PROSE: &[&str] = &[
    "``double`` backticks start the line",
    "``x`` prose",
    "```inline``` code that looks like a fence",
    "`` ` `` a literal backtick",
];
pub const BODY_LINES: &[&str] = &[
    "plain output",
    "",
    "  indented",
    "trailing blank ",
    "foo (glob)",
    "a* (glob+)",
    "b (?)",
    "x|y (regex)",
    "\\t tab (escaped)",
    "no newline (no-eol)",
    "$ looks like a command",
    "> looks like a continuation",
    "# looks like a comment",
    "``two backticks",
    "`one`",
    "text (with parens)",
    "[not exit] code",
    "[-1]",
    "[+1]",
    "[ 1]",
    "[1 ]",
    "[0x1]",
    "ünï 世界",
    "* star",
    "(equal)",
    "any (*)",
    "---",
];
pub const COMMANDS: &[&str] = &[
    "echo hello",
    "printf '%s\\n' a b",
    "cat <<EOF",
    "true # comment",
    "echo '```'",
    "echo \"$ not\"",
    "ls ünï",
    "echo {a,b}",
    "",
];
pub const CONT: &[&str] = &["arg", "EOF", "| sort", "  indented", "> nested", "", ""];
pub const COMMENTS: &[&str] = &["# a comment", "#!shebang-ish", "#", "# $ not a command"];
pub const FOREIGN_INFO: &[&str] = &["python", "sh", "text", "c++", "scrutx", "日本語", "bash title=x", "python {linenos=true}", "js {1,3}", "日本語 {x}", "é{"];
pub const FOREIGN_BODY: &[&str] = &[
    "print('hi')",
    "$ not a test",
    "",
    "# heading-like",
    "``short",
    "---",
    "plain",
];

fn body_strategy() -> BoxedStrategy<Vec<String>> {
    vec(proptest::sample::select(BODY_LINES.to_vec()).prop_map(String::from), 0..6).boxed()
}

fn inline_cfg() -> BoxedStrategy<InlineCfg> {
    (
        proptest::option::weighted(0.3, 1u64..20),
        proptest::option::weighted(0.3, any::<bool>()),
        proptest::option::weighted(0.3, 1u8..4),
        proptest::option::weighted(0.2, any::<bool>()),
        proptest::option::weighted(0.3, (proptest::sample::select(vec!["FOO", "BAR_1"]), proptest::sample::select(vec!["bar", "with space", "ünï"]))),
        proptest::option::weighted(0.15, 1u64..5),
    )
        .prop_map(|(timeout_s, keep_crlf, output_stream, detached, env, wait_s)| InlineCfg {
            timeout_s,
            keep_crlf,
            output_stream,
            detached,
            env: env.map(|(k, v)| (k.to_string(), v.to_string())),
            wait_s,
        })
        .boxed()
}

pub fn scrut_blk() -> BoxedStrategy<ScrutBlk> {
    (
        3u8..6,
        0u8..3,
        proptest::option::weighted(0.4, inline_cfg()),
        vec(proptest::sample::select(COMMENTS.to_vec()).prop_map(String::from), 0..3),
        proptest::sample::select(COMMANDS.to_vec()),
        vec(proptest::sample::select(CONT.to_vec()).prop_map(String::from), 0..3),
        body_strategy(),
        proptest::option::weighted(0.3, (prop_oneof![Just(0u8), Just(1u8), any::<u8>()], any::<u16>())),
        prop_oneof![6 => Just(0u8), 1 => Just(1u8), 1 => Just(2u8), 1 => Just(3u8)],
        prop_oneof![9 => Just(vec![]), 1 => vec(proptest::sample::select(PRE_LINES.to_vec()).prop_map(String::from), 1..3)],
    )
        .prop_map(|(fence, pad, cfg, comments, c0, cont, body, exit, close_extra, pre)| {
            let mut cmd = vec![c0.to_string()];
            cmd.extend(cont);
            ScrutBlk {
                fence,
                pad,
                cfg: cfg.filter(|c| !c.is_empty()),
                comments,
                cmd,
                body,
                exit,
                close_extra,
                pre,
            }
        })
        .boxed()
}

fn core_blk() -> BoxedStrategy<Blk> {
    prop_oneof![
        8 => scrut_blk().prop_map(Blk::Scrut),
        2 => vec(proptest::sample::select(TITLE_PROSE.to_vec()).prop_map(String::from), 1..3).prop_map(|lines| Blk::Prose { lines }),
        2 => vec(proptest::sample::select(OTHER_PROSE.to_vec()).prop_map(String::from), 1..3).prop_map(|lines| Blk::Prose { lines }),
        1 => vec(prop_oneof![
                proptest::sample::select(TITLE_PROSE.to_vec()),
                proptest::sample::select(OTHER_PROSE.to_vec()),
                proptest::sample::select(BACKTICK_PROSE.to_vec())
            ].prop_map(String::from), 1..4).prop_map(|lines| Blk::Prose { lines }),
        1 => proptest::sample::select(BACKTICK_PROSE.to_vec()).prop_map(|l| Blk::Prose { lines: vec![l.to_string()] }),
        2 => (1u8..4, proptest::sample::select(vec!["A heading", "Ünï heading", "heading with `code`", "1. numbered heading", "Trailing #"]))
            .prop_map(|(level, text)| Blk::Heading { level, text: text.to_string() }),
        2 => (3u8..6, proptest::sample::select(FOREIGN_INFO.to_vec()), vec(proptest::sample::select(FOREIGN_BODY.to_vec()).prop_map(String::from), 0..4))
            .prop_map(|(fence, info, body)| Blk::Foreign { fence, info: info.to_string(), body, close_extra: (fence % 3) * (info.len() as u8 % 2) }),
        // documented nesting: a complete scrut block inside a foreign block with a longer fence
        1 => (scrut_blk(), proptest::sample::select(vec!["markdown", "md", "text"])).prop_map(|(b, info)| {
            let mut inner = vec![];
            push_scrut(&mut inner, &b, "", "");
            inner.push(closing_fence(b.fence, b.close_extra));
            Blk::Foreign { fence: b.fence + 1 + if b.close_extra == 3 { 0 } else { b.close_extra }, info: info.to_string(), body: inner, close_extra: 0 }
        }),
        1 => scrut_blk().prop_map(Blk::ScrutCfgTrailingBlank),
        1 => scrut_blk().prop_map(Blk::ScrutLangTrailingBlank),
        1 => (3u8..5).prop_map(|fence| Blk::EmptyScrut { fence }),
        1 => (3u8..5, prop_oneof![Just(1u8), Just(0u8), any::<u8>()]).prop_map(|(fence, code)| Blk::ExitOnlyScrut { fence, code }),
        1 => (3u8..5, vec(proptest::sample::select(COMMENTS.to_vec()).prop_map(String::from), 1..3)).prop_map(|(fence, comments)| Blk::CommentOnlyScrut { fence, comments }),
    ]
    .boxed()
}

fn malformed_blk() -> BoxedStrategy<Blk> {
    prop_oneof![
        2 => (3u8..5, vec(proptest::sample::select(vec!["an expectation", "another"]).prop_map(String::from), 1..3)).prop_map(|(fence, body)| Blk::NoCommandScrut { fence, body }),
        2 => (3u8..6, vec(proptest::sample::select(FOREIGN_BODY.to_vec()).prop_map(String::from), 0..3)).prop_map(|(fence, body)| Blk::NoLanguage { fence, body }),
        // a fence without language that is longer than three backticks around a complete scrut block
        1 => scrut_blk().prop_map(|b| {
            let mut inner = vec![];
            push_scrut(&mut inner, &b, "", "");
            inner.push(closing_fence(b.fence, b.close_extra));
            Blk::NoLanguage { fence: b.fence + 1 + if b.close_extra == 3 { 0 } else { b.close_extra }, body: inner }
        }),
    ]
    .boxed()
}

fn front() -> BoxedStrategy<FrontSpec> {
    (
        proptest::option::of(prop_oneof![Just(0u64), 1u64..100, Just(900u64)]),
        proptest::option::of(any::<bool>()),
        proptest::option::of(prop_oneof![Just(80), Just(7)]),
        vec(proptest::sample::select(vec!["setup.md", "other/pre.md"]).prop_map(String::from), 0..2),
        proptest::bool::weighted(0.1),
    )
        .prop_map(|(total_timeout_s, strip_ansi, skip_code, prepend, empty)| FrontSpec {
            total_timeout_s,
            strip_ansi,
            skip_code,
            prepend,
            empty,
        })
        .boxed()
}

/// documents made of documented constructs only
pub fn core_doc(max_blocks: usize, lf_only: bool) -> BoxedStrategy<Doc> {
    (
        proptest::option::weighted(0.3, front()),
        vec(core_blk(), 0..=max_blocks),
        vec(prop_oneof![1 => Just(0u8), 3 => Just(1u8), 2 => Just(2u8)], max_blocks),
        proptest::bool::weighted(if lf_only { 0.0 } else { 0.15 }),
        proptest::bool::weighted(0.85),
    )
        .prop_map(|(front, blocks, gaps, crlf, final_newline)| Doc {
            front,
            blocks,
            gaps,
            tail: Tail::None,
            crlf,
            final_newline,
        })
        .boxed()
}

/// documents with at least one malformed construct
pub fn extended_doc(max_blocks: usize) -> BoxedStrategy<Doc> {
    (
        core_doc(max_blocks, false),
        vec((any::<u16>(), malformed_blk()), 0..2),
        prop_oneof![
            2 => Just(Tail::None),
            3 => any::<u16>().prop_map(Tail::TruncateAt),
            2 => (3u8..6, proptest::sample::select(FOREIGN_INFO.to_vec()), vec(proptest::sample::select(FOREIGN_BODY.to_vec()).prop_map(String::from), 0..4))
                .prop_map(|(fence, info, body)| Tail::UnterminatedForeign { fence, info: info.to_string(), body }),
            2 => scrut_blk().prop_map(Tail::UnterminatedScrut),
            1 => Just(Tail::UnterminatedFrontMatter),
        ],
    )
        .prop_map(|(mut doc, malformed, tail)| {
            for (pos, blk) in malformed {
                let at = pick_idx(pos, doc.blocks.len() + 1);
                doc.blocks.insert(at, blk);
                doc.gaps.insert(at.min(doc.gaps.len()), 1);
            }
            if matches!(tail, Tail::UnterminatedFrontMatter) {
                doc.front = None;
            }
            doc.tail = tail;
            if !doc.blocks.iter().any(|b| b.malformed()) && matches!(doc.tail, Tail::None) {
                doc.tail = Tail::TruncateAt(40000);
            }
            doc
        })
        .boxed()
}

pub type EnvMap = BTreeMap<String, String>;
