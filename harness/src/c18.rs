//! C18: per-document work directory, documented environment, complete clean-up.

use std::collections::{BTreeMap, BTreeSet};
use std::path::{Path, PathBuf};

use proptest::collection::vec;
use proptest::prelude::*;
use serde::{Deserialize, Serialize};

use crate::engine::*;
use crate::proc::*;

#[derive(Clone, Debug, Serialize, Deserialize)]
pub struct D18 {
    /// documents 0 and 1 share the base name `same.md` in different directories
    pub slot: u8,
    pub cram: bool,
    /// 0 pass, 1 validation failure, 2 timeout, 3 skip, 4 execution error (shell cannot be started)
    pub outcome: u8,
    /// how the timed-out command treats SIGTERM: 0 default, 1 ignores it, 2 traps it for clean-up
    #[serde(default)]
    pub term_style: u8,
    /// Markdown: a `detached: true` test case stands between the logging ones and the last one
    #[serde(default)]
    pub detached: bool,
}

#[derive(Clone, Debug, Serialize, Deserialize)]
pub struct P18 {
    pub docs: Vec<D18>,
    /// 0 default, 1 --work-directory, 2 --keep-temporary-directories
    pub flag: u8,
    /// an unparsable document is added to the run (nothing executes)
    pub parse_error: bool,
    /// 0 `scrut test`, 1 `scrut update --replace --assume-yes`, 2 `scrut create` (only clean-up
    /// and orderly termination are asserted for 1 and 2)
    #[serde(default)]
    pub command: u8,
    /// scrut is started from an environment that already carries the documented values
    /// (LANG=C, LC_ALL=C, TZ=GMT, COLUMNS=80, ...), as CI jobs that pin the locale do
    #[serde(default)]
    pub pinned_env: bool,
    /// `scrut test` only: 1 = a document is prepended with -P, 2 = one is appended with -A,
    /// 3 = both; their test cases run as part of every given document
    #[serde(default)]
    pub pre_post: u8,
}

#[derive(Clone, Debug, Serialize, Deserialize)]
pub struct Case18 {
    pub procs: Vec<P18>,
}

fn case_strategy() -> BoxedStrategy<Case18> {
    let doc = (0u8..4, proptest::bool::weighted(0.2), prop_oneof![4 => Just(0u8), 2 => Just(1u8), 2 => Just(2u8), 2 => Just(3u8), 1 => Just(4u8)], 0u8..3, proptest::bool::weighted(0.3))
        .prop_map(|(slot, cram, outcome, term_style, detached)| D18 {
            slot,
            cram,
            term_style,
            detached: detached && !cram,
            // Cram has neither per-test timeouts nor a front-matter for the shell
            outcome: if cram && (outcome == 2 || outcome == 4) { 1 } else { outcome },
        });
    let p = (
        vec(doc, 1..5),
        prop_oneof![5 => Just(0u8), 2 => Just(1u8), 1 => Just(2u8)],
        proptest::bool::weighted(0.1),
        prop_oneof![6 => Just(0u8), 1 => Just(1u8), 1 => Just(2u8)],
        proptest::bool::weighted(0.4),
        prop_oneof![3 => Just(0u8), 1 => Just(1u8), 1 => Just(2u8), 1 => Just(3u8)],
    )
        .prop_map(|(mut docs, flag, parse_error, command, pinned_env, pre_post)| {
            // one document per slot
            let mut seen = BTreeSet::new();
            docs.retain(|d| seen.insert(d.slot));
            let pre_post = if command == 0 { pre_post } else { 0 };
            if pre_post != 0 {
                // prepended / appended documents are Markdown and need a shell that starts
                for d in docs.iter_mut() {
                    d.cram = false;
                    if d.outcome == 4 {
                        d.outcome = 0;
                    }
                }
            }
            P18 { docs, flag, parse_error, command, pinned_env, pre_post }
        });
    vec(p, 1..4).prop_map(|procs| Case18 { procs }).boxed()
}

const LOG_CMD: &str = r#"printf '%s|' "$VERIF_DOC" "$(pwd -P)" "$TESTDIR" "$TESTFILE" "$TESTSHELL" "$TMPDIR" "$LANG" "$LANGUAGE" "$LC_ALL" "$TZ" "$COLUMNS" "${CDPATH-unset}" "${GREP_OPTIONS-unset}" "$SHELL" "$SCRUT_TEST" >> "$VERIF_LOG"; echo >> "$VERIF_LOG""#;

fn doc_text(id: &str, d: &D18) -> (String, Vec<usize>) {
    // returns the text and the 1-based line numbers of the `$` lines of the logging tests
    let mut lines: Vec<String> = vec![];
    let mut dollar = vec![];
    let log = LOG_CMD.replace("$VERIF_DOC", id);
    if d.cram {
        lines.push("first".into());
        dollar.push(lines.len() + 1);
        lines.push(format!("  $ {log}; touch file-in-cwd; mktemp > /dev/null"));
        lines.push(String::new());
        lines.push("second".into());
        dollar.push(lines.len() + 1);
        lines.push(format!("  $ {log}; test -f file-in-cwd"));
        lines.push(String::new());
        lines.push("third".into());
        match d.outcome {
            1 => {
                lines.push("  $ echo unexpected".into());
            }
            3 => lines.push("  $ (exit 80)".into()),
            _ => lines.push("  $ true".into()),
        }
    } else {
        if d.outcome == 4 {
            lines.push("---".into());
            lines.push("shell: /nonexistent/shell".into());
            lines.push("---".into());
            lines.push(String::new());
        }
        lines.push("# first".into());
        lines.push(String::new());
        lines.push("```scrut".into());
        dollar.push(lines.len() + 1);
        lines.push(format!("$ {log}; touch file-in-cwd; mktemp > /dev/null"));
        lines.push("> export TESTDIR=overwritten TESTFILE=overwritten TMPDIR=/nonexistent-tmp SCRUT_TEST=bogus LANG=xx_XX TZ=XXX COLUMNS=3".into());
        lines.push("```".into());
        lines.push(String::new());
        lines.push("# second".into());
        lines.push(String::new());
        lines.push("```scrut".into());
        dollar.push(lines.len() + 1);
        lines.push(format!("$ {log}; test -f file-in-cwd"));
        lines.push("```".into());
        lines.push(String::new());
        if d.detached {
            lines.push("# detached".into());
            lines.push(String::new());
            lines.push("```scrut {detached: true}".into());
            lines.push("$ true".into());
            lines.push("```".into());
            lines.push(String::new());
        }
        lines.push("# third".into());
        lines.push(String::new());
        match d.outcome {
            1 => {
                lines.push("```scrut".into());
                lines.push("$ echo unexpected".into());
            }
            2 => {
                lines.push("```scrut {timeout: 300ms}".into());
                lines.push(match d.term_style {
                    1 => "$ trap '' TERM; sleep 1.5".to_string(),
                    2 => "$ trap 'echo cleaning up' TERM; sleep 1.5; echo done".to_string(),
                    _ => "$ sleep 1.5".to_string(),
                });
            }
            3 => {
                lines.push("```scrut".into());
                lines.push("$ exit 80".into());
            }
            _ => {
                lines.push("```scrut".into());
                lines.push("$ true".into());
            }
        }
        lines.push("```".into());
    }
    (lines.join("\n") + "\n", dollar)
}

fn check_case(c: &Case18) -> V {
    let dir = match CaseDir::new("C18") {
        Ok(d) => d,
        Err(e) => inconclusive(&format!("scratch: {e}")),
    };
    let tmp = dir.tmp();
    let bash = std::fs::canonicalize("/bin/bash").unwrap_or_else(|_| PathBuf::from("/bin/bash"));
    struct Planned {
        args: Vec<String>,
        log: PathBuf,
        work: Option<PathBuf>,
        /// doc id -> (path, dir, file name, cram, dollar lines, outcome)
        docs: BTreeMap<String, (PathBuf, PathBuf, String, bool, Vec<usize>, u8)>,
        flag: u8,
        parse_error: bool,
        expect_exit: i32,
        command: u8,
        pinned_env: bool,
        pre_post: u8,
        pi: usize,
    }
    let mut planned = vec![];
    let mut dump = String::new();
    for (pi, p) in c.procs.iter().enumerate() {
        let base = dir.path().join(format!("p{pi}"));
        let mut docs = BTreeMap::new();
        let mut args: Vec<String> = match p.command {
            1 => vec!["update".into(), "--no-color".into(), "--replace".into(), "--assume-yes".into()],
            2 => vec!["create".into(), "--no-color".into(), "--output".into(), base.join("created.md").to_string_lossy().to_string()],
            _ => vec!["test".into(), "--no-color".into(), "-r".into(), "json".into()],
        };
        std::fs::create_dir_all(&base).ok();
        let work = if p.flag == 1 {
            let w = base.join("W");
            std::fs::create_dir_all(&w).ok();
            args.push("--work-directory".into());
            args.push(w.to_string_lossy().to_string());
            Some(w)
        } else {
            None
        };
        if p.flag == 2 {
            args.push("--keep-temporary-directories".into());
        }
        for d in &p.docs {
            let id = format!("p{pi}d{}", d.slot);
            let (sub, name) = match d.slot {
                0 => ("one", if d.cram { "same.t" } else { "same.md" }),
                1 => ("two", if d.cram { "same.t" } else { "same.md" }),
                2 => ("one", if d.cram { "other.t" } else { "other.md" }),
                _ => ("two", if d.cram { "third.t" } else { "third.md" }),
            };
            let ddir = base.join("docs").join(sub);
            std::fs::create_dir_all(&ddir).ok();
            let path = ddir.join(name);
            let (text, dollar) = doc_text(&id, d);
            std::fs::write(&path, &text).ok();
            dump.push_str(&format!("--- {} (outcome class {}):\n{text}\n", path.display(), d.outcome));
            args.push(path.to_string_lossy().to_string());
            docs.insert(id, (path, std::fs::canonicalize(&ddir).unwrap_or(ddir), name.to_string(), d.cram, dollar, d.outcome));
        }
        if p.parse_error {
            let bad = base.join("docs").join("bad.md");
            std::fs::create_dir_all(bad.parent().unwrap()).ok();
            std::fs::write(&bad, "```scrut\nexpectation but no command\n```\n").ok();
            args.push(bad.to_string_lossy().to_string());
        }
        if p.command == 0 && p.pre_post != 0 {
            // (-P / -A take several values: they follow the document paths)
            let inc = base.join("inc");
            std::fs::create_dir_all(&inc).ok();
            for (bit, flag, name) in [(1u8, "-P", "pre"), (2u8, "-A", "post")] {
                if p.pre_post & bit != 0 {
                    let path = inc.join(format!("{name}.md"));
                    let log = LOG_CMD.replace("$VERIF_DOC", &format!("p{pi}{name}"));
                    let text = format!("# {name}\n\n```scrut\n$ {log}\n```\n");
                    std::fs::write(&path, &text).ok();
                    dump.push_str(&format!("--- {} ({flag}):\n{text}\n", path.display()));
                    args.push(flag.into());
                    args.push(path.to_string_lossy().to_string());
                }
            }
        }
        if p.command == 2 {
            // `scrut create` takes a shell expression instead of documents
            let keep: Vec<String> = args.iter().take_while(|a| !a.ends_with(".md") && !a.ends_with(".t") || a.ends_with("created.md")).cloned().collect();
            args = keep;
            args.push("--".into());
            args.push("touch file-in-cwd; mktemp > /dev/null; echo created".into());
        }
        let any_exec_error = p.docs.iter().any(|d| d.outcome == 4);
        let any_fail = p.docs.iter().any(|d| d.outcome == 1 || d.outcome == 2);
        let expect_exit = if p.parse_error || any_exec_error { 1 } else if any_fail { 50 } else { 0 };
        planned.push(Planned {
            args,
            log: base.join("log.txt"),
            work,
            docs,
            flag: p.flag,
            parse_error: p.parse_error,
            expect_exit,
            command: p.command,
            pinned_env: p.pinned_env,
            pre_post: if p.command == 0 { p.pre_post } else { 0 },
            pi,
        });
    }
    // start all scrut processes together, sharing one TMPDIR
    let results: Vec<RunResult> = std::thread::scope(|s| {
        let handles: Vec<_> = planned
            .iter()
            .map(|p| {
                let dir = &dir;
                s.spawn(move || {
                    let argv: Vec<&str> = p.args.iter().map(|x| x.as_str()).collect();
                    let mut cmd = scrut_command(dir, &argv);
                    cmd.env("VERIF_LOG", &p.log);
                    if p.pinned_env {
                        cmd.env("LANG", "C")
                            .env("LANGUAGE", "C")
                            .env("LC_ALL", "C")
                            .env("TZ", "GMT")
                            .env("COLUMNS", "80")
                            .env("CDPATH", "")
                            .env("GREP_OPTIONS", "");
                    }
                    match run_cmd(cmd, None, 120) {
                        Ok(r) => r,
                        Err(e) => inconclusive(&format!("scrut test: {e}")),
                    }
                })
            })
            .collect();
        handles.into_iter().map(|h| h.join().unwrap()).collect()
    });
    let n_docs: usize = c.procs.iter().map(|p| p.docs.len()).sum();
    let non_pass = c.procs.iter().any(|p| p.parse_error || p.docs.iter().any(|d| d.outcome != 0));
    let any_timeout = c.procs.iter().any(|p| p.docs.iter().any(|d| d.outcome == 2));
    let v = V::pass()
        .nt((n_docs >= 2 && non_pass) || c.procs.len() >= 2)
        .label_if(c.procs.len() >= 2, "concurrent_processes")
        .label_if(any_timeout, "timeout_class")
        .label_if(c.procs.iter().any(|p| p.docs.iter().any(|d| d.outcome == 3)), "skip_class")
        .label_if(c.procs.iter().any(|p| p.docs.iter().any(|d| d.outcome == 4)), "execution_error_class")
        .label_if(c.procs.iter().any(|p| p.parse_error), "parse_error_class")
        .label_if(c.procs.iter().any(|p| p.docs.iter().any(|d| d.detached)), "detached_test_case")
        .label_if(c.procs.iter().any(|p| p.flag == 1), "work_directory_flag")
        .label_if(c.procs.iter().any(|p| p.flag == 2), "keep_flag")
        .label_if(c.procs.iter().any(|p| p.pinned_env), "documented_values_already_in_environment")
        .label_if(c.procs.iter().any(|p| p.command == 0 && p.pre_post != 0), "prepended_or_appended_document")
        .label_if(c.procs.iter().any(|p| p.command == 1), "update_command")
        .label_if(c.procs.iter().any(|p| p.command == 2), "create_command")
        .label_if(c.procs.iter().any(|p| p.docs.iter().filter(|d| d.slot < 2).count() == 2), "identical_file_names");
    let fail = |m: String| V::fail(format!("{m}\n{dump}"));

    // 1. clean-up, inspected twice
    let keep_any = c.procs.iter().any(|p| p.flag == 2);
    let inspect = |when: &str| -> Option<String> {
        if !keep_any {
            let left = dir_entries(&tmp);
            if !left.is_empty() {
                return Some(format!("{when}: $TMPDIR of the scrut process still contains {:?}", left));
            }
        }
        for p in &planned {
            if let Some(w) = &p.work {
                if !w.is_dir() {
                    return Some(format!("{when}: the directory given with --work-directory is gone"));
                }
                let temps: Vec<String> = dir_entries(w).into_iter().filter(|e| e.starts_with("temp.")).collect();
                if !temps.is_empty() {
                    return Some(format!("{when}: --work-directory still contains the temporary directory {:?}", temps));
                }
            }
        }
        None
    };
    if let Some(m) = inspect("when scrut has exited") {
        return fail(m);
    }
    // 2. exit status, environment and working directories from the logs
    let mut cwd_owner: BTreeMap<String, String> = BTreeMap::new();
    for (p, r) in planned.iter().zip(results.iter()) {
        if p.command != 0 {
            // update / create: orderly termination only (the clean-up is inspected above and below)
            if r.code.is_none() {
                return fail(format!("a scrut {} process was killed by signal {:?}", if p.command == 1 { "update" } else { "create" }, r.signal));
            }
            continue;
        }
        if r.code != Some(p.expect_exit) {
            return fail(format!("a scrut process exits with {:?}, expected {} (stderr: {})", r.code, p.expect_exit, truncate(&r.stderr, 300)));
        }
        let log = std::fs::read_to_string(&p.log).unwrap_or_default();
        let mut per_doc: BTreeMap<String, Vec<Vec<String>>> = BTreeMap::new();
        for line in log.lines() {
            let f: Vec<String> = line.split('|').map(String::from).collect();
            if f.len() < 15 {
                return fail(format!("unreadable log line {line:?}"));
            }
            per_doc.entry(f[0].clone()).or_default().push(f);
        }
        if p.parse_error {
            if !log.is_empty() {
                return fail("tests ran although a document of the run does not parse".into());
            }
            continue;
        }
        for (id, (path, ddir, name, cram, dollar, outcome)) in &p.docs {
            let entries = per_doc.get(id).cloned().unwrap_or_default();
            if *outcome == 4 {
                continue; // the shell cannot be started: nothing runs
            }
            // documents after an execution error of the same run do not run; otherwise two log lines
            let exec_error_in_run = p.docs.values().any(|d| d.5 == 4);
            if entries.len() != 2 {
                if exec_error_in_run && entries.is_empty() {
                    continue;
                }
                return fail(format!("document {id}: {} logging test cases ran, expected 2", entries.len()));
            }
            let cwd = &entries[0][1];
            for (k, f) in entries.iter().enumerate() {
                let what = format!("document {id} test {k}");
                if &f[1] != cwd {
                    return fail(format!("{what}: runs in {} but the first test case of the document ran in {cwd}", f[1]));
                }
                let checks: Vec<(&str, &str, String)> = vec![
                    ("TESTDIR", &f[2], ddir.to_string_lossy().to_string()),
                    ("TESTFILE", &f[3], name.clone()),
                    ("TESTSHELL", &f[4], bash.to_string_lossy().to_string()),
                    ("LANG", &f[6], "C".into()),
                    ("LANGUAGE", &f[7], "C".into()),
                    ("LC_ALL", &f[8], "C".into()),
                    ("TZ", &f[9], "GMT".into()),
                    ("COLUMNS", &f[10], "80".into()),
                    ("CDPATH", &f[11], "".into()),
                    ("GREP_OPTIONS", &f[12], "".into()),
                    ("SHELL", &f[13], bash.to_string_lossy().to_string()),
                ];
                for (var, got, want) in checks {
                    if got != want {
                        return fail(format!("{what}: {var}={got:?}, documented value {want:?}"));
                    }
                }
                // TMPDIR: inside the area scrut owns, the same for all test cases
                let t = &f[5];
                let area = p.work.clone().unwrap_or_else(|| tmp.clone());
                let area = std::fs::canonicalize(&area).unwrap_or(area);
                if !Path::new(t).starts_with(&area) && !Path::new(t).starts_with(&tmp) {
                    return fail(format!("{what}: TMPDIR={t:?} is not below {:?}", area));
                }
                if t != &entries[0][5] {
                    return fail(format!("{what}: TMPDIR changes between test cases ({t:?} vs {:?})", entries[0][5]));
                }
                if !*cram {
                    let want = format!("{}:{}", path.display(), dollar[k]);
                    if f[14] != want {
                        return fail(format!("{what}: SCRUT_TEST={:?}, expected {want:?}", f[14]));
                    }
                }
            }
            // no other document / process shares the directory (default mode)
            if p.flag != 1 {
                if let Some(other) = cwd_owner.insert(cwd.clone(), id.clone()) {
                    return fail(format!("documents {other} and {id} share the working directory {cwd}"));
                }
                if !Path::new(cwd).starts_with(&tmp) {
                    return fail(format!("document {id} runs in {cwd}, outside of scrut's temporary area"));
                }
            } else if let Some(w) = &p.work {
                let w = std::fs::canonicalize(w).unwrap_or(w.clone());
                if Path::new(cwd) != w {
                    return fail(format!("document {id} runs in {cwd} although --work-directory {} is given", w.display()));
                }
            }
        }
    }
    // 2b. test cases of prepended / appended documents run as part of each given document: same
    // working directory, TESTDIR / TESTFILE / TMPDIR of that document, documented values afresh
    for (p, r) in planned.iter().zip(results.iter()) {
        if p.pre_post == 0 || p.parse_error || r.code != Some(p.expect_exit) {
            continue;
        }
        let log = std::fs::read_to_string(&p.log).unwrap_or_default();
        let rows: Vec<Vec<String>> = log.lines().map(|l| l.split('|').map(String::from).collect()).collect();
        // documents run one after the other, so the log is ordered: a prepended test case belongs
        // to the given document whose test cases follow it, an appended one to the one before it
        let owner = |row: usize, forward: bool| -> Option<(String, String, String, String)> {
            let mut k = row as isize;
            loop {
                k += if forward { 1 } else { -1 };
                if k < 0 || k as usize >= rows.len() {
                    return None;
                }
                let f = &rows[k as usize];
                if let Some((_, ddir, name, _, _, _)) = p.docs.get(&f[0]) {
                    return Some((f[1].clone(), ddir.to_string_lossy().to_string(), name.clone(), f[5].clone()));
                }
            }
        };
        for (bit, name) in [(1u8, "pre"), (2u8, "post")] {
            if p.pre_post & bit == 0 {
                continue;
            }
            let id = format!("p{}{name}", p.pi);
            let entries: Vec<(usize, &Vec<String>)> = rows.iter().enumerate().filter(|(_, f)| f[0] == id).collect();
            // a prepended test case runs with every document; an appended one unless the document
            // ended early (timeout, skip)
            let want = if name == "pre" { p.docs.len() } else { p.docs.values().filter(|d| d.5 <= 1).count() };
            if entries.len() != want {
                return fail(format!("the {name}pended test case ran {} times, expected {want} (once per given document that reaches it)", entries.len()));
            }
            for (row, f) in entries {
                let what = format!("{name}pended test case running in {}", f[1]);
                let Some((cwd, testdir, testfile, tmpdir)) = owner(row, name == "pre") else {
                    return fail(format!("{what}: no test case of a given document runs {} it", if name == "pre" { "after" } else { "before" }));
                };
                if f[1] != cwd {
                    return fail(format!("{what}: the document it runs with uses {cwd}"));
                }
                let checks: Vec<(&str, &str, String)> = vec![
                    ("TESTDIR", &f[2], testdir.clone()),
                    ("TESTFILE", &f[3], testfile.clone()),
                    ("TESTSHELL", &f[4], bash.to_string_lossy().to_string()),
                    ("TMPDIR", &f[5], tmpdir.clone()),
                    ("LANG", &f[6], "C".into()),
                    ("LANGUAGE", &f[7], "C".into()),
                    ("LC_ALL", &f[8], "C".into()),
                    ("TZ", &f[9], "GMT".into()),
                    ("COLUMNS", &f[10], "80".into()),
                    ("CDPATH", &f[11], "".into()),
                    ("GREP_OPTIONS", &f[12], "".into()),
                ];
                for (var, got, want) in checks {
                    if got != want {
                        return fail(format!("{what}: {var}={got:?}, the document it runs with has {want:?}"));
                    }
                }
            }
        }
    }
    // 3. second inspection after a grace period longer than every generated command
    if any_timeout {
        std::thread::sleep(std::time::Duration::from_millis(2300));
        if let Some(m) = inspect("2.3 s after scrut has exited") {
            return fail(m);
        }
    }
    v
}

pub fn property() -> Property {
    Property {
        id: "C18",
        assumptions: vec![
            "every scrut process of a case gets a fresh TMPDIR owned by the case; it is inspected when the last process has exited and again after a grace period longer than every generated command",
            "the 'set afresh' probe (a test case overwrites TESTDIR, TESTFILE, TMPDIR, SCRUT_TEST, LANG, TZ, COLUMNS) is only placed in Markdown documents (Cram runs one script)",
            "with --work-directory sharing the directory is the documented behaviour; schedules of concurrent processes are sampled by the OS, not controlled; SIGKILL of scrut itself is not generated",
        ],
        parts: vec![Box::new(PropPart::<Case18> {
            name: "runs",
            rule: "1..3 scrut processes started together on 1..4 documents each (identical file names in different directories, Markdown / Cram) with outcome class per document in {pass, validation failure, timeout, skip, shell cannot be started} or an unparsable document in the run; flags {none, --work-directory, --keep-temporary-directories}; test cases log cwd and the documented variables, one test case overwrites them. Non-trivial: >=2 documents and a non-pass class, or >=2 processes",
            quick: 120,
            thorough: 3_000,
            max_workers: 8,
            strategy: Box::new(|_| case_strategy()),
            check: Box::new(check_case),
        })],
    }
}
