//! library face of the harness: the property modules, so that the cargo-fuzz targets under
//! fuzz/ can reuse generators and oracles
#![allow(dead_code)]
pub mod c04;
pub mod c05;
pub mod c06;
pub mod c07;
pub mod c08;
pub mod c09;
pub mod c10;
pub mod c11;
pub mod c12;
pub mod c13;
pub mod c14;
pub mod c15;
pub mod c16;
pub mod c17;
pub mod c18;
pub mod c19;
pub mod c20;
pub mod cfggen;
pub mod docgen;
pub mod engine;
pub mod execchild;
pub mod fuzz;
pub mod matcher;
pub mod proc;
pub mod unicode_c;

/// the property registry
pub fn property(id: &str) -> Option<engine::Property> {
    Some(match id {
        "C01" | "C02" | "C03" => matcher::property(id),
        "C04" => c04::property(),
        "C05" => c05::property(),
        "C06" => c06::property(),
        "C07" => c07::property(),
        "C08" => c08::property(),
        "C09" => c09::property(),
        "C10" => c10::property(),
        "C11" => c11::property(),
        "C12" => c12::property(),
        "C13" => c13::property(),
        "C14" => c14::property(),
        "C15" => c15::property(),
        "C16" => c16::property(),
        "C17" => c17::property(),
        "C18" => c18::property(),
        "C19" => c19::property(),
        "C20" => c20::property(),
        _ => return None,
    })
}
