//! C17: configuration survives being written out and read back.

use std::sync::Arc;

use proptest::prelude::*;
use scrut::config::{DocumentConfig, TestCaseConfig};
use scrut::escaping::Escaper;
use scrut::expectation::ExpectationMaker;
use scrut::generators::generator::TestCaseGenerator;
use scrut::generators::markdown::MarkdownTestCaseGenerator;
use scrut::outcome::Outcome;
use scrut::parsers::markdown::MarkdownParser;
use scrut::parsers::parser::{Parser, ParserType};
use scrut::rules::registry::RuleRegistry;
use scrut::testcase::TestCase;
use serde::{Deserialize, Serialize};

use crate::cfggen::*;
use crate::engine::*;

#[derive(Clone, Debug, Serialize, Deserialize)]
pub struct TcCase {
    pub cfg: TcCfg,
}

#[derive(Clone, Debug, Serialize, Deserialize)]
pub struct DocCase {
    pub cfg: DocCfg,
}

fn parser(base: Option<TestCaseConfig>) -> MarkdownParser {
    MarkdownParser::new(
        Arc::new(ExpectationMaker::new(RuleRegistry::default())),
        &["scrut"],
        base,
    )
}

fn yaml_significant(s: &str) -> bool {
    s.chars().any(|c| "\"'\\:{},#[]&*!|>%@`".contains(c))
        || s != s.trim()
        || s.is_empty()
        || !s.is_ascii()
        || ["true", "false", "null", "~"].contains(&s)
        || s.parse::<f64>().is_ok()
}

fn cfg_nontrivial(c: &TcCfg) -> bool {
    c.keys_set() >= 3
        || c.environment.values().any(|v| yaml_significant(v))
        || c.wait.as_ref().and_then(|w| w.1.as_ref()).map(|p| yaml_significant(p)).unwrap_or(false)
}

/// signatures of the known one-liner defects
fn classify_one_liner(c: &TcCfg, msg: String) -> V {
    let env_special = c
        .environment
        .values()
        .any(|v| v.contains('"') || v.contains('\\'));
    let path_special = c
        .wait
        .as_ref()
        .and_then(|w| w.1.as_ref())
        .map(|p| yaml_significant(p))
        .unwrap_or(false);
    if env_special {
        known_or_fail("one-liner-env-value-with-quote-or-backslash", msg)
    } else if path_special {
        known_or_fail("one-liner-wait-path-unquoted", msg)
    } else {
        V::fail(msg)
    }
}

fn check_tc(case: &TcCase) -> V {
    let c = &case.cfg;
    let original = c.to_config();
    let v = V::pass()
        .nt(cfg_nontrivial(c))
        .label_if(!c.environment.is_empty(), "environment")
        .label_if(c.wait.is_some(), "wait")
        .label_if(c.keys_set() >= 3, "three_or_more_keys");

    // (a) one-liner on a fence line -> MarkdownParser (empty base config)
    let one_liner = match guard(|| original.to_yaml_one_liner()) {
        Ok(s) => s,
        Err(p) => return V::fail(format!("to_yaml_one_liner crashed: {p}")),
    };
    if one_liner.contains('\n') {
        return classify_one_liner(c, format!("one-liner spans several lines: {one_liner:?}"));
    }
    let doc = format!("# t\n\n```scrut {one_liner}\n$ true\n```\n");
    match guard(|| parser(Some(TestCaseConfig::empty())).parse(&doc)) {
        Err(p) => return V::fail(format!("parser crashed on {doc:?}: {p}")),
        Ok(Err(e)) => {
            return classify_one_liner(
                c,
                format!("one-liner {one_liner:?} does not parse back: {e:#}"),
            )
        }
        Ok(Ok((_, tests))) => {
            if tests.len() != 1 {
                return classify_one_liner(c, format!("one-liner {one_liner:?}: {} tests parsed", tests.len()));
            }
            if tests[0].config != original {
                return classify_one_liner(
                    c,
                    format!(
                        "one-liner {one_liner:?} reads back as {} instead of {}",
                        tests[0].config, original
                    ),
                );
            }
        }
    }

    // (b) the create / --convert path: MarkdownTestCaseGenerator output parsed back; the test
    // case comes from a Markdown document (create, update) or from a Cram document
    // (`update --convert markdown`), whose format defaults differ from the reader's
    for (format, defaults) in [
        (ParserType::Markdown, TestCaseConfig::default_markdown()),
        (ParserType::Cram, TestCaseConfig::default_cram()),
    ] {
        let effective = original.with_defaults_from(&defaults);
        let outcome = Outcome {
            location: None,
            output: ("", "", Some(0)).into(),
            testcase: TestCase {
                title: "a title".into(),
                shell_expression: "true".into(),
                expectations: vec![],
                exit_code: None,
                line_number: 1,
                config: effective.clone(),
            },
            format,
            escaping: Escaper::Unicode,
            result: Ok(()),
        };
        let generated = match guard(|| MarkdownTestCaseGenerator::default().generate_testcases(&[&outcome])) {
            Ok(Ok(g)) => g,
            Ok(Err(e)) => return V::fail(format!("generate_testcases failed: {e:#}")),
            Err(p) => return V::fail(format!("generate_testcases crashed: {p}")),
        };
        match guard(|| parser(None).parse(&generated)) {
            Err(p) => return V::fail(format!("parser crashed on generated document {generated:?}: {p}")),
            Ok(Err(e)) => {
                return classify_one_liner(c, format!("generated document {generated:?} does not parse: {e:#}"))
            }
            Ok(Ok((_, tests))) => {
                if tests.len() != 1 || tests[0].config != effective {
                    return classify_one_liner(
                        c,
                        format!(
                            "document generated from a {format} test case, {generated:?}, reads back with config {} instead of {}",
                            tests.first().map(|t| t.config.to_string()).unwrap_or_default(),
                            effective
                        ),
                    );
                }
            }
        }
    }

    // (c) serde level
    let yaml = match guard(|| serde_yaml::to_string(&original)) {
        Ok(Ok(y)) => y,
        Ok(Err(e)) => return V::fail(format!("serde_yaml::to_string failed: {e}")),
        Err(p) => return V::fail(format!("serialisation crashed: {p}")),
    };
    match guard(|| serde_yaml::from_str::<TestCaseConfig>(&yaml)) {
        Ok(Ok(back)) if back == original => {}
        Ok(Ok(back)) => {
            return V::fail(format!("YAML {yaml:?} reads back as {back} instead of {original}"))
        }
        Ok(Err(e)) => return V::fail(format!("YAML {yaml:?} does not parse back: {e}")),
        Err(p) => return V::fail(format!("deserialisation crashed: {p}")),
    }
    v
}

fn check_doc(case: &DocCase) -> V {
    let c = &case.cfg;
    let original = c.to_config();
    let v = V::pass()
        .nt(cfg_nontrivial(&c.defaults) || !c.append.is_empty() || c.total_timeout_ms.is_some())
        .label_if(c.total_timeout_ms.is_some(), "total_timeout")
        .label_if(!c.append.is_empty() || !c.prepend.is_empty(), "lists");
    let yaml = match guard(|| serde_yaml::to_string(&original)) {
        Ok(Ok(y)) => y,
        Ok(Err(e)) => return V::fail(format!("serde_yaml::to_string failed: {e}")),
        Err(p) => return V::fail(format!("serialisation crashed: {p}")),
    };
    // front-matter of a Markdown document
    let doc = format!("---\n{yaml}---\n\n# t\n\n```scrut\n$ true\n```\n");
    let expected = original.with_defaults_from(&DocumentConfig::default_markdown());
    let classify = |msg: String| -> V {
        let t = c.total_timeout_ms;
        if t.map(|ms| ms / 1000 == 900 && ms != 900_000).unwrap_or(false) {
            known_or_fail("total-timeout-of-900-seconds-and-a-fraction-not-written", msg)
        } else {
            V::fail(msg)
        }
    };
    match guard(|| parser(None).parse(&doc)) {
        Err(p) => return V::fail(format!("parser crashed on {doc:?}: {p}")),
        Ok(Err(e)) => return classify(format!("front-matter {yaml:?} does not parse back: {e:#}")),
        Ok(Ok((cfg, tests))) => {
            if cfg != expected {
                return classify(format!(
                    "front-matter {yaml:?} reads back as {cfg} instead of {expected}"
                ));
            }
            let tc_expected = TestCaseConfig::empty()
                .with_defaults_from(&expected.defaults)
                .with_defaults_from(&TestCaseConfig::default_markdown());
            if tests.len() != 1 || tests[0].config != tc_expected {
                return classify(format!(
                    "test case under front-matter {yaml:?} has config {} instead of {tc_expected}",
                    tests.first().map(|t| t.config.to_string()).unwrap_or_default()
                ));
            }
        }
    }
    v
}

pub fn property() -> Property {
    Property {
        id: "C17",
        assumptions: vec![
            "environment variable names are drawn from [A-Za-z_][A-Za-z0-9_]* (names that are YAML keywords are not generated)",
            "a document total_timeout equal to the format default (900s) is allowed to be omitted when written, because it reads back as the same effective value",
        ],
        parts: vec![
            Box::new(PropPart::<TcCase> {
                name: "testcase_config",
                rule: "TestCaseConfig with every subset of keys, durations from ms to days, wait paths and environment values from a pool of YAML-significant text (quotes, backslashes, `: `, braces, commas, #, leading/trailing blanks, non-ASCII, YAML keywords); (a) to_yaml_one_liner on a fence line parsed by MarkdownParser, (b) MarkdownTestCaseGenerator output parsed back, (c) serde_yaml round trip. Non-trivial: >=3 keys or a YAML-significant value",
                quick: 100_000,
                thorough: 5_000_000,
                max_workers: 0,
                strategy: Box::new(|_| tc_strategy().prop_map(|cfg| TcCase { cfg }).boxed()),
                check: Box::new(check_tc),
            }),
            Box::new(PropPart::<DocCase> {
                name: "document_config",
                rule: "DocumentConfig (lists, defaults, shell, total_timeout) written by serde_yaml as front-matter of a Markdown document and parsed back; compared layered over the Markdown defaults. Non-trivial: lists, a total_timeout or YAML-significant values",
                quick: 60_000,
                thorough: 2_000_000,
                max_workers: 0,
                strategy: Box::new(|_| doc_strategy().prop_map(|cfg| DocCase { cfg }).boxed()),
                check: Box::new(check_doc),
            }),
        ],
    }
}
