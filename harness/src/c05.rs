//! C05: a test passes iff it completed with the expected exit code and output.
//! (a) library truth table over TestCase::validate, (b) end to end through `scrut test -r json`.

use std::time::Duration;

use proptest::collection::vec;
use proptest::prelude::*;
use scrut::config::{OutputStreamControl, TestCaseConfig};
use scrut::diff::DiffTool;
use scrut::output::{ExitStatus, Output};
use scrut::testcase::{TestCase, TestCaseError};
use serde::{Deserialize, Serialize};

use crate::engine::*;
use crate::matcher::with_maker;
use crate::proc::*;

#[derive(Clone, Debug, Serialize, Deserialize)]
pub struct TableCase {
    pub expected: Option<i32>,
    /// 0 Code, 1 Unknown, 2 Timeout, 3 Skipped, 4 Detached
    pub status: u8,
    pub code: i32,
    /// 0 unset, 1 stdout, 2 stderr, 3 combined
    pub stream: u8,
    pub exps: Vec<String>,
    pub stdout: String,
    pub stderr: String,
}

const EXPS: &[&str] = &["a", "b", "a (?)", "b (*)", "a* (glob)", "a|b (regex+)", "", "a (no-eol)"];
const OUTS: &[&str] = &["", "a\n", "b\n", "a\nb\n", "a", "a\na\n", "b\nb\nb\n", "\n", "x\n"];

fn table_strategy() -> BoxedStrategy<TableCase> {
    (
        proptest::option::of(prop_oneof![Just(0), Just(1), Just(80), 0..256i32]),
        prop_oneof![6 => Just(0u8), 3 => Just(1u8), 1 => Just(2u8), 1 => Just(3u8), 1 => Just(4u8)],
        prop_oneof![Just(0), Just(1), Just(80), 0..256i32],
        0u8..4,
        vec(proptest::sample::select(EXPS.to_vec()), 0..4),
        proptest::sample::select(OUTS.to_vec()),
        proptest::sample::select(OUTS.to_vec()),
        any::<bool>(),
        any::<bool>(),
        proptest::bool::weighted(0.1),
    )
        .prop_map(|(expected, status, code, stream, exps, stdout, stderr, align_code, align_out, echo)| {
            // bias: half of the cases have the right code, half have expectations equal to the output
            let code = if align_code { expected.unwrap_or(0) } else { code };
            let mut exps: Vec<String> = exps.into_iter().map(|s| s.to_string()).collect();
            if align_out {
                let selected = if stream == 2 { stderr } else { stdout };
                exps = selected
                    .split_inclusive('\n')
                    .map(|l| match l.strip_suffix('\n') {
                        Some(t) => t.to_string(),
                        None => format!("{l} (no-eol)"),
                    })
                    .collect();
            }
            // echo family: the configured stream is the expectation source text itself
            let (mut stdout, mut stderr) = (stdout.to_string(), stderr.to_string());
            if echo && !align_out && !exps.is_empty() {
                let text = format!("{}\n", exps.join("\n"));
                if stream == 2 {
                    stderr = text;
                } else {
                    stdout = text;
                }
            }
            TableCase {
                expected,
                status,
                code,
                stream,
                exps,
                stdout,
                stderr,
            }
        })
        .boxed()
}

fn check_table(c: &TableCase) -> V {
    let exps = match with_maker(|m| {
        c.exps
            .iter()
            .map(|l| m.parse(l))
            .collect::<Result<Vec<_>, _>>()
    }) {
        Ok(e) => e,
        Err(_) => return V::pass().label("unparsable_skipped"),
    };
    let output_stream = match c.stream {
        0 => None,
        1 => Some(OutputStreamControl::Stdout),
        2 => Some(OutputStreamControl::Stderr),
        _ => Some(OutputStreamControl::Combined),
    };
    let tc = TestCase {
        title: "t".into(),
        shell_expression: "cmd".into(),
        expectations: exps.clone(),
        exit_code: c.expected,
        line_number: 1,
        config: TestCaseConfig {
            output_stream,
            ..Default::default()
        },
    };
    let status = match c.status {
        0 => ExitStatus::Code(c.code),
        1 => ExitStatus::Unknown,
        2 => ExitStatus::Timeout(Duration::from_secs(1)),
        3 => ExitStatus::Skipped,
        _ => ExitStatus::Detached,
    };
    let output = Output {
        stdout: c.stdout.as_bytes().to_vec().into(),
        stderr: c.stderr.as_bytes().to_vec().into(),
        exit_code: status.clone(),
    };
    let result = match guard(|| tc.validate(&output)) {
        Ok(r) => r,
        Err(p) => return V::fail(format!("validate crashed: {p}")),
    };
    // the configured stream: stderr only when asked for; combined output is delivered in stdout
    let selected = if c.stream == 2 { &c.stderr } else { &c.stdout };
    let other = if c.stream == 2 { &c.stdout } else { &c.stderr };
    let diff_ok = match guard(|| DiffTool::new(exps.clone()).diff(selected.as_bytes())) {
        Ok(Ok(d)) => !d.has_differences(),
        _ => return V::fail("diff failed"),
    };
    let other_ok = match guard(|| DiffTool::new(exps.clone()).diff(other.as_bytes())) {
        Ok(Ok(d)) => !d.has_differences(),
        _ => return V::fail("diff failed"),
    };
    let expected_code = c.expected.unwrap_or(0);
    let label_status = ["code", "unknown", "timeout", "skipped", "detached"][c.status as usize];
    let v = V::pass()
        .label(label_status)
        .label(["stream_unset", "stream_stdout", "stream_stderr", "stream_combined"][c.stream as usize])
        .nt(c.status != 0 || (c.code != expected_code && diff_ok) || c.stream >= 2 || diff_ok != other_ok);
    match status {
        ExitStatus::Code(code) => {
            if code != expected_code {
                match result {
                    Err(TestCaseError::InvalidExitCode { actual, expected })
                        if actual == code && expected == expected_code =>
                    {
                        v.label("wrong_code")
                    }
                    other => V::fail(format!(
                        "exit code {code} where {expected_code} is expected must be reported as InvalidExitCode whatever the output, got {}",
                        describe(&other)
                    )),
                }
            } else if diff_ok {
                if result.is_ok() {
                    v.label("pass")
                } else {
                    V::fail(format!(
                        "right exit code and the configured stream is accepted, but validate says {}",
                        describe(&result)
                    ))
                }
            } else {
                match result {
                    Err(TestCaseError::MalformedOutput(_)) => v.label("malformed_output"),
                    other => V::fail(format!(
                        "configured stream {:?} is not accepted by the expectations {:?} but validate says {} (the other stream is {})",
                        selected,
                        c.exps,
                        describe(&other),
                        if other_ok { "accepted" } else { "not accepted either" }
                    )),
                }
            }
        }
        ExitStatus::Unknown => {
            if result.is_ok() {
                V::fail(
                    "a command that produced no exit code (ExitStatus::Unknown: killed by a signal / never ran) is validated as success",
                )
            } else {
                v.label("no_exit_code_is_failure")
            }
        }
        _ => {
            // every caller maps these before validate; asserted end to end only
            let mut v = v;
            v.unasserted = true;
            v
        }
    }
}

fn describe(r: &Result<(), TestCaseError>) -> String {
    match r {
        Ok(()) => "Ok (success)".into(),
        Err(TestCaseError::MalformedOutput(_)) => "MalformedOutput".into(),
        Err(TestCaseError::InvalidExitCode { actual, expected }) => {
            format!("InvalidExitCode(actual {actual}, expected {expected})")
        }
        Err(TestCaseError::InternalError(e)) => format!("InternalError({e})"),
        Err(TestCaseError::Timeout) => "Timeout".into(),
        Err(TestCaseError::Skipped) => "Skipped".into(),
    }
}

// ---------------------------------------------------------------------------
// (b) end to end

#[derive(Clone, Debug, Serialize, Deserialize)]
pub struct E2eTest {
    /// 0 = exit with `code`, 1 = kill own shell with `signal`
    pub ending: u8,
    pub code: u8,
    pub signal: u8,
    pub expected: Option<u8>,
    /// payload lines written to stdout / stderr
    pub out: Vec<String>,
    pub err: Vec<String>,
    /// 0 unset, 1 stdout, 2 stderr, 3 combined
    pub stream: u8,
    /// expectations: 0 = own lines of the configured stream, 1 = one line changed, 2 = none
    pub exp_mode: u8,
    /// expectation lines for mode 1 are mutated at this line
    pub mut_line: u16,
}

#[derive(Clone, Debug, Serialize, Deserialize)]
pub struct E2eCase {
    pub tests: Vec<E2eTest>,
    /// write the document in Cram format (single-script execution, combined stream)
    #[serde(default)]
    pub cram: bool,
    /// front-matter `defaults: {output_stream: ..}`: 0 none, 1 stdout, 2 stderr, 3 combined
    #[serde(default)]
    pub doc_stream: u8,
}

const PAYLOAD: &[&str] = &["alpha", "beta", "gamma delta", "", "x y z", "ünï"];

fn e2e_strategy() -> BoxedStrategy<E2eCase> {
    let t = (
        // 0 exits with a code, 1 kills its own shell, 2 prints and then hangs until the document
        // limit (2 s) aborts it
        prop_oneof![5 => Just(0u8), 2 => Just(1u8), 1 => Just(2u8)],
        prop_oneof![4 => Just(0u8), 1 => Just(1u8), 1 => Just(2u8), 1 => 3u8..=255],
        // signals that are never inherited as ignored (a background job inherits SIGINT / SIGQUIT
        // ignored, nohup SIGHUP: such a signal would not end the shell)
        proptest::sample::select(vec![9u8, 15, 6, 11]),
        proptest::option::of(prop_oneof![Just(0u8), Just(1u8), 2u8..=255]),
        vec(proptest::sample::select(PAYLOAD.to_vec()), 0..4),
        vec(proptest::sample::select(PAYLOAD.to_vec()), 0..3),
        0u8..4,
        prop_oneof![4 => Just(0u8), 2 => Just(1u8), 2 => Just(2u8)],
        any::<u16>(),
        any::<bool>(),
    )
        .prop_map(|(ending, code, signal, expected, out, err, stream, exp_mode, mut_line, align)| {
            let code = if code == 80 { 81 } else { code }; // 80 = skip code: C15's domain
            let expected = if align { if code == 0 { None } else { Some(code) } } else { expected };
            E2eTest {
                ending,
                code,
                signal,
                expected,
                out: out.into_iter().map(String::from).collect(),
                err: err.into_iter().map(String::from).collect(),
                stream,
                exp_mode,
                mut_line,
            }
        });
    (vec(t, 1..=4), proptest::bool::weighted(0.2), prop_oneof![3 => Just(0u8), 1 => Just(1u8), 2 => Just(2u8), 2 => Just(3u8)])
        .prop_map(|(mut tests, cram, doc_stream)| {
            if cram {
                for t in tests.iter_mut() {
                    t.stream = 3; // Cram: always the combined stream, no inline configuration
                    if t.ending == 2 {
                        t.ending = 0; // single script: a timeout is not attributed test by test
                    }
                }
            }
            // at most one hanging command per case (each costs the document limit)
            let mut hang_seen = false;
            for t in tests.iter_mut() {
                if t.ending == 2 {
                    if hang_seen {
                        t.ending = 0;
                    }
                    hang_seen = true;
                }
            }
            E2eCase { tests, cram, doc_stream: if cram { 0 } else { doc_stream } }
        })
        .boxed()
}

fn check_e2e(c: &E2eCase) -> V {
    let dir = match CaseDir::new("C05") {
        Ok(d) => d,
        Err(e) => return inconclusive(&format!("scratch dir: {e}")),
    };
    let mut doc = if c.cram { String::new() } else { String::from("# C05 end to end\n\n") };
    let hangs = c.tests.iter().any(|t| t.ending == 2);
    if !c.cram && (c.doc_stream != 0 || hangs) {
        let mut fm = String::from("---\n");
        if hangs {
            fm.push_str("total_timeout: 2s\n");
        }
        if c.doc_stream != 0 {
            fm.push_str(&format!("defaults:\n  output_stream: {}\n", ["", "stdout", "stderr", "combined"][c.doc_stream as usize]));
        }
        doc = format!("{fm}---\n\n{doc}");
    }
    // model
    let mut expected_kinds: Vec<&'static str> = vec![];
    let mut dead = false; // a previous command was killed by a signal: nothing after it runs
    for (i, t) in c.tests.iter().enumerate() {
        let fo = dir.path().join(format!("out{i}.txt"));
        let fe = dir.path().join(format!("err{i}.txt"));
        let ob: String = t.out.iter().map(|l| format!("{l}\n")).collect();
        let eb: String = t.err.iter().map(|l| format!("{l}\n")).collect();
        std::fs::write(&fo, &ob).ok();
        std::fs::write(&fe, &eb).ok();
        let cfg = match t.stream {
            0 => "",
            1 => " {output_stream: stdout}",
            2 => " {output_stream: stderr}",
            _ => " {output_stream: combined}",
        };
        // the stream in force: inline configuration, else the document default, else stdout
        let in_force = if t.stream != 0 { t.stream } else { c.doc_stream };
        // sequential writers => write order is defined also for the combined stream
        let selected: Vec<String> = match in_force {
            2 => t.err.clone(),
            3 => t.out.iter().chain(t.err.iter()).cloned().collect(),
            _ => t.out.clone(),
        };
        let mut exps = match t.exp_mode {
            2 => vec![],
            _ => selected.clone(),
        };
        let mut output_ok = match t.exp_mode {
            2 => selected.is_empty(),
            _ => true,
        };
        if t.exp_mode == 1 {
            if exps.is_empty() {
                exps.push("not there".into());
            } else {
                let i = pick_idx(t.mut_line, exps.len());
                exps[i] = format!("{} changed", exps[i]);
            }
            output_ok = false;
        }
        if c.cram {
            doc.push_str(&format!("test {i}\n  $ cat '{}'; cat '{}' >&2\n", fo.display(), fe.display()));
            match t.ending {
                0 => doc.push_str(&format!("  > (exit {})\n", t.code)),
                2 => doc.push_str("  > sleep 20\n"),
                _ => doc.push_str(&format!("  > kill -{} $$\n", t.signal)),
            }
            for e in &exps {
                doc.push_str(&format!("  {e}\n"));
            }
            if let Some(x) = t.expected {
                doc.push_str(&format!("  [{x}]\n"));
            }
            doc.push('\n');
        } else {
            doc.push_str(&format!("## test {i}\n\n```scrut{cfg}\n$ cat '{}'; cat '{}' >&2\n", fo.display(), fe.display()));
            match t.ending {
                0 => doc.push_str(&format!("> (exit {})\n", t.code)),
                2 => doc.push_str("> sleep 20\n"),
                _ => doc.push_str(&format!("> kill -{} $$\n", t.signal)),
            }
            for e in &exps {
                doc.push_str(e);
                doc.push('\n');
            }
            if let Some(x) = t.expected {
                doc.push_str(&format!("[{x}]\n"));
            }
            doc.push_str("```\n\n");
        }
        let kind = if dead {
            "not_success"
        } else if t.ending == 1 || t.ending == 2 {
            dead = true;
            "not_success"
        } else if t.code as i32 != t.expected.map(|x| x as i32).unwrap_or(0) {
            "invalid_exit_code"
        } else if output_ok {
            "success"
        } else {
            "malformed_output"
        };
        expected_kinds.push(kind);
    }
    let path = dir.path().join(if c.cram { "doc.t" } else { "doc.md" });
    std::fs::write(&path, &doc).ok();
    let mut argv = vec!["test", "-r", "json", "--no-color", path.to_str().unwrap()];
    if c.cram && hangs {
        argv.extend(["--timeout-seconds", "2"]);
    }
    let run = match run_scrut(&dir, &argv, 60) {
        Ok(r) => r,
        Err(e) => return inconclusive(&format!("scrut did not run: {e}")),
    };
    let any_signal = c.tests.iter().any(|t| t.ending == 1);
    let any_signal_or_hang = any_signal || hangs;
    let v = V::pass()
        .nt(any_signal_or_hang
            || c.tests.iter().any(|t| t.stream >= 2)
            || c.doc_stream >= 2
            || expected_kinds.contains(&"invalid_exit_code"))
        .label_if(any_signal, "signal_killed_command")
        .label_if(hangs, "command_aborted_by_the_document_limit")
        .label_if(c.cram, "cram")
        .label_if(c.doc_stream != 0 && c.tests.iter().any(|t| t.stream != 0 && t.stream != c.doc_stream), "stream_set_in_document_and_test")
        .label_if(expected_kinds.contains(&"invalid_exit_code"), "wrong_exit_code")
        .label_if(expected_kinds.contains(&"malformed_output"), "malformed_output")
        .label_if(expected_kinds.iter().all(|k| *k == "success"), "all_pass");
    let kinds = match json_result_kinds(&run.stdout) {
        Ok(k) => k,
        Err(e) => {
            // an execution error (exit 1, no report) is an acceptable way of not reporting success
            if any_signal_or_hang && run.code == Some(1) {
                return v.label("run_aborted_with_error");
            }
            return V::fail(format!(
                "no JSON report (exit {:?}): {e}\nstdout: {}\nstderr: {}\ndocument:\n{doc}",
                run.code,
                truncate(&run.stdout, 600),
                truncate(&run.stderr, 600)
            ));
        }
    };
    if kinds.len() > c.tests.len() {
        return V::fail(format!("{} results for {} tests", kinds.len(), c.tests.len()));
    }
    for (i, exp) in expected_kinds.iter().enumerate() {
        let got = kinds.get(i).map(|s| s.as_str());
        let ok = match *exp {
            "not_success" => got != Some("success"),
            other => got == Some(other),
        };
        if !ok {
            return V::fail(format!(
                "test {i}: expected result kind {exp}, scrut reports {:?} (all: {:?}, exit {:?})\ndocument:\n{doc}",
                got, kinds, run.code
            ));
        }
    }
    let should_fail = expected_kinds.iter().any(|k| *k != "success");
    match (should_fail, run.code) {
        (false, Some(0)) => v,
        (true, Some(50)) | (true, Some(1)) => v,
        (s, code) => V::fail(format!(
            "exit status {code:?} but the run {} (kinds {:?})\ndocument:\n{doc}",
            if s { "has failing tests" } else { "passes" },
            kinds
        )),
    }
}

pub fn property() -> Property {
    Property {
        id: "C05",
        assumptions: vec![
            "library level: only ExitStatus::Code and ExitStatus::Unknown rows are asserted (Timeout / Skipped / Detached are mapped by every caller before validate and are asserted end to end)",
            "the output verdict used by the truth table is DiffTool::diff on the configured stream (the matcher itself is C01-C03)",
            "end to end: sequential writers, so the combined stream has a defined order",
        ],
        parts: vec![
            Box::new(PropPart::<TableCase> {
                name: "table",
                rule: "truth table rows: expected code {None,0..255} x status {Code,Unknown,Timeout,Skipped,Detached} x output_stream {unset,stdout,stderr,combined} x expectations/streams over a small alphabet (half aligned to pass). Non-trivial: non-Code status, or wrong code with accepted output, or stderr/combined, or the two streams disagree",
                quick: 300_000,
                thorough: 10_000_000,
                max_workers: 0,
                strategy: Box::new(|_| table_strategy()),
                check: Box::new(check_table),
            }),
            Box::new(PropPart::<E2eCase> {
                name: "e2e",
                rule: "documents of 1..4 tests run by `scrut test -r json`: commands cat payload files to stdout/stderr and exit N or kill their own shell with a signal; expectations = own lines / one line changed / none. Non-trivial: a signal-killed command, stderr/combined stream, or a wrong exit code",
                quick: 600,
                thorough: 12_000,
                max_workers: 12,
                strategy: Box::new(|_| e2e_strategy()),
                check: Box::new(check_e2e),
            }),
        ],
    }
}
