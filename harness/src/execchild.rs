//! `verif exec-case <file>`: runs one executor case through the scrut *library* in this (child)
//! process, so that aborts / stack overflows inside scrut kill the child, not the harness.

use std::collections::BTreeMap;
use std::path::{Path, PathBuf};
use std::time::Duration;

use scrut::config::{DocumentConfig, OutputStreamControl, TestCaseConfig};
use scrut::executors::bash_runner::BashRunner;
use scrut::executors::bash_script_executor::BashScriptExecutor;
use scrut::executors::context::ContextBuilder;
use scrut::executors::error::{ExecutionError, ExecutionTimeout};
use scrut::executors::executor::Executor;
use scrut::executors::stateful_executor::StatefulExecutor;
use scrut::output::{ExitStatus, Output};
use scrut::testcase::TestCase;
use serde::{Deserialize, Serialize};

use crate::engine::{hex, unhex};
use crate::proc::*;

#[derive(Clone, Debug, Default, Serialize, Deserialize)]
pub struct ExecTest {
    pub expr: String,
    pub output_stream: Option<u8>,
    pub keep_crlf: Option<bool>,
    pub strip_ansi: Option<bool>,
    pub timeout_ms: Option<u64>,
    pub detached: Option<bool>,
    pub skip_code: Option<i32>,
    pub env: BTreeMap<String, String>,
    pub line: usize,
}

#[derive(Clone, Debug, Default, Serialize, Deserialize)]
pub struct ExecCase {
    /// "stateful" (Markdown: one bash per test, state file) or "script" (Cram: one script)
    pub executor: String,
    pub work: String,
    pub tmp: String,
    pub total_timeout_ms: Option<u64>,
    pub tests: Vec<ExecTest>,
    /// "exec" (default) or "crlf": run scrut::newline::replace_crlf on the file `crlf_input`
    #[serde(default)]
    pub mode: String,
    #[serde(default)]
    pub crlf_input: String,
}

#[derive(Clone, Debug, Default, Serialize, Deserialize)]
pub struct ExecOutput {
    pub stdout: String,
    pub stderr: String,
    /// "code:N" | "unknown" | "timeout" | "skipped" | "detached"
    pub status: String,
}

impl ExecOutput {
    pub fn stdout_bytes(&self) -> Vec<u8> {
        unhex(&self.stdout)
    }
    pub fn stderr_bytes(&self) -> Vec<u8> {
        unhex(&self.stderr)
    }
}

#[derive(Clone, Debug, Default, Serialize, Deserialize)]
pub struct ExecResult {
    pub outputs: Vec<ExecOutput>,
    /// None = Ok(outputs); "skipped:<i>" | "timeout:total" | "timeout:<i>" | "failed:<msg>" | "aborted:<msg>"
    pub error: Option<String>,
    pub wall_ms: u64,
}

fn conv(o: &Output) -> ExecOutput {
    ExecOutput {
        stdout: hex(&o.stdout.to_bytes()),
        stderr: hex(&o.stderr.to_bytes()),
        status: match &o.exit_code {
            ExitStatus::Code(c) => format!("code:{c}"),
            ExitStatus::Unknown => "unknown".into(),
            ExitStatus::Timeout(_) => "timeout".into(),
            ExitStatus::Skipped => "skipped".into(),
            ExitStatus::Detached => "detached".into(),
        },
    }
}

pub fn child_main(path: &str) -> i32 {
    let text = match std::fs::read_to_string(path) {
        Ok(t) => t,
        Err(e) => {
            eprintln!("exec-case: cannot read {path}: {e}");
            return 3;
        }
    };
    let case: ExecCase = match serde_json::from_str(&text) {
        Ok(c) => c,
        Err(e) => {
            eprintln!("exec-case: cannot parse {path}: {e}");
            return 3;
        }
    };
    if case.mode == "crlf" {
        let input = std::fs::read(&case.crlf_input).unwrap_or_default();
        let out = scrut::newline::replace_crlf(&input);
        std::fs::write(format!("{}.out", case.crlf_input), &out[..]).ok();
        return 0;
    }
    let tests: Vec<TestCase> = case
        .tests
        .iter()
        .map(|t| TestCase {
            title: "t".into(),
            shell_expression: t.expr.clone(),
            expectations: vec![],
            exit_code: None,
            line_number: t.line,
            config: TestCaseConfig {
                detached: t.detached,
                environment: t.env.clone(),
                keep_crlf: t.keep_crlf,
                output_stream: t.output_stream.map(|s| match s {
                    1 => OutputStreamControl::Stdout,
                    2 => OutputStreamControl::Stderr,
                    _ => OutputStreamControl::Combined,
                }),
                skip_document_code: t.skip_code,
                strip_ansi_escaping: t.strip_ansi,
                timeout: t.timeout_ms.map(Duration::from_millis),
                wait: None,
            },
        })
        .collect();
    let refs: Vec<&TestCase> = tests.iter().collect();
    let context = ContextBuilder::default()
        .work_directory(PathBuf::from(&case.work))
        .temp_directory(PathBuf::from(&case.tmp))
        .file(PathBuf::from("doc.md"))
        .config(DocumentConfig {
            total_timeout: case.total_timeout_ms.map(Duration::from_millis),
            ..Default::default()
        })
        .build()
        .expect("context");
    let shell = Path::new("/bin/bash");
    let executor: Box<dyn Executor> = if case.executor == "script" {
        Box::new(BashScriptExecutor::new(shell))
    } else {
        Box::new(StatefulExecutor::new(BashRunner::stateful_generator(shell)))
    };
    let start = std::time::Instant::now();
    let result = executor.execute_all(&refs, &context);
    let wall_ms = start.elapsed().as_millis() as u64;
    let res = match result {
        Ok(outputs) => ExecResult {
            outputs: outputs.iter().map(conv).collect(),
            error: None,
            wall_ms,
        },
        Err(ExecutionError::Skipped(i)) => ExecResult {
            outputs: vec![],
            error: Some(format!("skipped:{i}")),
            wall_ms,
        },
        Err(ExecutionError::Timeout(t, outputs)) => ExecResult {
            outputs: outputs.iter().map(conv).collect(),
            error: Some(match t {
                ExecutionTimeout::Total => "timeout:total".to_string(),
                ExecutionTimeout::Index(i) => format!("timeout:{i}"),
            }),
            wall_ms,
        },
        Err(e) => ExecResult {
            outputs: vec![],
            error: Some(format!("failed:{e}")),
            wall_ms,
        },
    };
    println!("{}", serde_json::to_string(&res).unwrap());
    0
}

/// run a case in a child process. Err(..) = the child crashed / was killed (message)
pub enum ChildOutcome {
    Done(ExecResult),
    Crashed(String),
}

pub fn run_child(dir: &CaseDir, case: &ExecCase, watchdog_s: u64) -> ChildOutcome {
    let path = dir.path().join("exec-case.json");
    std::fs::write(&path, serde_json::to_string(case).unwrap()).ok();
    let exe = std::env::current_exe().unwrap();
    let mut cmd = std::process::Command::new(exe);
    cmd.arg("exec-case")
        .arg(&path)
        .current_dir(dir.path())
        .env_clear()
        .env("PATH", "/usr/local/bin:/usr/bin:/bin")
        .env("HOME", dir.path())
        .env("TMPDIR", dir.tmp())
        .env("LANG", "C")
        .env("LC_ALL", "C")
        .env("RUST_BACKTRACE", "0");
    match run_cmd(cmd, None, watchdog_s) {
        Err(e) => inconclusive(&format!("child executor: {e}")),
        Ok(r) => {
            if r.code == Some(0) {
                if case.mode == "crlf" {
                    return ChildOutcome::Done(ExecResult::default());
                }
                match serde_json::from_slice::<ExecResult>(&r.stdout) {
                    Ok(res) => ChildOutcome::Done(res),
                    Err(e) => ChildOutcome::Crashed(format!(
                        "child printed no result ({e}); stderr: {}",
                        truncate(&r.stderr, 500)
                    )),
                }
            } else {
                ChildOutcome::Crashed(format!(
                    "child process died: exit {:?} signal {:?}; stderr: {}",
                    r.code,
                    r.signal,
                    truncate(&r.stderr, 500)
                ))
            }
        }
    }
}
