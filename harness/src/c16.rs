//! C16: configuration precedence: command line > test case > document defaults > format.

use std::collections::BTreeMap;

use proptest::collection::vec;
use proptest::prelude::*;
use scrut::config::{DocumentConfig, TestCaseConfig};
use serde::{Deserialize, Serialize};
use serde_json::json;

use crate::cfggen::*;
use crate::engine::*;
use crate::proc::*;

// ---------------------------------------------------------------------------
// (a) library

#[derive(Clone, Debug, Serialize, Deserialize)]
pub struct LayerCase {
    /// layers in precedence order: command line, inline, document defaults, format
    pub layers: Vec<TcCfg>,
    /// one more config for the algebraic laws
    pub extra: TcCfg,
}

/// every key in {unset, A, B}; environment over three names with values A/B/C
fn small_tc() -> BoxedStrategy<TcCfg> {
    (
        proptest::option::of(any::<bool>()),
        vec((proptest::sample::select(vec!["V1", "V2", "V3"]), proptest::sample::select(vec!["A", "B", "C"])), 0..4),
        proptest::option::of(any::<bool>()),
        proptest::option::of(1u8..4),
        proptest::option::of(prop_oneof![Just(80), Just(7)]),
        proptest::option::of(any::<bool>()),
        proptest::option::of(prop_oneof![Just(1000u64), Just(2500u64)]),
        proptest::option::of(prop_oneof![Just((1000u64, None)), Just((2000u64, Some("p".to_string())))]),
    )
        .prop_map(|(detached, env, keep_crlf, output_stream, skip, strip, timeout_ms, wait)| TcCfg {
            detached,
            environment: env.into_iter().map(|(k, v)| (k.to_string(), v.to_string())).collect(),
            keep_crlf,
            output_stream,
            skip_document_code: skip,
            strip_ansi_escaping: strip,
            timeout_ms,
            wait,
        })
        .boxed()
}

fn layer_strategy() -> BoxedStrategy<LayerCase> {
    (vec(small_tc(), 4), small_tc())
        .prop_map(|(layers, extra)| LayerCase { layers, extra })
        .boxed()
}

fn first<T: Clone>(layers: &[&TcCfg], f: impl Fn(&TcCfg) -> Option<T>) -> Option<T> {
    layers.iter().find_map(|l| f(l))
}

/// "the first layer that sets it", per key and per environment variable
fn model(layers: &[&TcCfg]) -> TcCfg {
    let mut environment = BTreeMap::new();
    for l in layers.iter().rev() {
        for (k, v) in &l.environment {
            environment.insert(k.clone(), v.clone());
        }
    }
    TcCfg {
        detached: first(layers, |l| l.detached),
        environment,
        keep_crlf: first(layers, |l| l.keep_crlf),
        output_stream: first(layers, |l| l.output_stream),
        skip_document_code: first(layers, |l| l.skip_document_code),
        strip_ansi_escaping: first(layers, |l| l.strip_ansi_escaping),
        timeout_ms: first(layers, |l| l.timeout_ms),
        wait: first(layers, |l| l.wait.clone()),
    }
}

fn diff_keys(a: &TestCaseConfig, b: &TestCaseConfig) -> String {
    let mut d = vec![];
    if a.detached != b.detached {
        d.push(format!("detached {:?} vs {:?}", a.detached, b.detached));
    }
    if a.environment != b.environment {
        d.push(format!("environment {:?} vs {:?}", a.environment, b.environment));
    }
    if a.keep_crlf != b.keep_crlf {
        d.push(format!("keep_crlf {:?} vs {:?}", a.keep_crlf, b.keep_crlf));
    }
    if a.output_stream != b.output_stream {
        d.push(format!("output_stream {:?} vs {:?}", a.output_stream, b.output_stream));
    }
    if a.skip_document_code != b.skip_document_code {
        d.push(format!("skip_document_code {:?} vs {:?}", a.skip_document_code, b.skip_document_code));
    }
    if a.strip_ansi_escaping != b.strip_ansi_escaping {
        d.push(format!("strip_ansi_escaping {:?} vs {:?}", a.strip_ansi_escaping, b.strip_ansi_escaping));
    }
    if a.timeout != b.timeout {
        d.push(format!("timeout {:?} vs {:?}", a.timeout, b.timeout));
    }
    if a.wait != b.wait {
        d.push(format!("wait {:?} vs {:?}", a.wait, b.wait));
    }
    d.join("; ")
}

fn check_layers(c: &LayerCase) -> V {
    let r = guard(|| {
        let cli = c.layers[0].to_config();
        let inline = c.layers[1].to_config();
        let defaults = c.layers[2].to_config();
        let format = c.layers[3].to_config();
        // composed exactly as parsers/markdown.rs + bin/commands/test.rs + stateful_executor.rs do
        let parsed = inline.with_defaults_from(&defaults).with_defaults_from(&format);
        let in_command = parsed.with_overrides_from(&cli);
        let effective = in_command.with_defaults_from(&defaults);
        let expect = model(&[&c.layers[0], &c.layers[1], &c.layers[2], &c.layers[3]]).to_config();
        if effective != expect {
            return Err(format!(
                "effective configuration differs from 'first layer that sets it' (got vs expected): {}",
                diff_keys(&effective, &expect)
            ));
        }
        // laws
        let (a, b, d) = (inline.clone(), defaults.clone(), format.clone());
        let left = a.with_defaults_from(&b).with_defaults_from(&d);
        let right = a.with_defaults_from(&b.with_defaults_from(&d));
        if left != right {
            return Err(format!("with_defaults_from is not associative: {}", diff_keys(&left, &right)));
        }
        let x = c.extra.to_config();
        let empty = TestCaseConfig::empty();
        if x.with_defaults_from(&empty) != x || empty.with_defaults_from(&x) != x {
            return Err("an empty layer changes the configuration".to_string());
        }
        if x.with_overrides_from(&a) != a.with_defaults_from(&x) {
            return Err("with_overrides_from(a, b) != b.with_defaults_from(a)".to_string());
        }
        let pair = a.with_defaults_from(&b);
        let pair_model = model(&[&c.layers[1], &c.layers[2]]).to_config();
        if pair != pair_model {
            return Err(format!(
                "two layers: {} (got vs expected)",
                diff_keys(&pair, &pair_model)
            ));
        }
        Ok(())
    });
    let conflicts = {
        let l = &c.layers;
        let mut n = 0;
        macro_rules! conflict {
            ($f:ident) => {
                let vals: Vec<_> = l.iter().filter_map(|x| x.$f.clone()).collect();
                if vals.len() >= 2 && vals.iter().any(|v| *v != vals[0]) {
                    n += 1;
                }
            };
        }
        conflict!(detached);
        conflict!(keep_crlf);
        conflict!(output_stream);
        conflict!(skip_document_code);
        conflict!(strip_ansi_escaping);
        conflict!(timeout_ms);
        conflict!(wait);
        let mut env_conflict = false;
        for name in ["V1", "V2", "V3"] {
            let vals: Vec<_> = l.iter().filter_map(|x| x.environment.get(name)).collect();
            if vals.len() >= 2 && vals.iter().any(|v| *v != vals[0]) {
                env_conflict = true;
            }
        }
        (n, env_conflict)
    };
    let v = V::pass()
        .nt(conflicts.0 > 0 || conflicts.1)
        .label_if(conflicts.0 > 0, "scalar_conflict")
        .label_if(conflicts.1, "environment_conflict");
    match r {
        Ok(Ok(())) => v,
        Ok(Err(m)) => V::fail(m),
        Err(p) => V::fail(format!("crash: {p}")),
    }
}

/// the same four layers, but the inline and document-default layers are written into a Markdown
/// document and composed by the real MarkdownParser (format layer = its base configuration)
fn check_parsed_layers(c: &LayerCase) -> V {
    use scrut::parsers::parser::Parser;
    let cli = c.layers[0].to_config();
    let inline = c.layers[1].to_config();
    let defaults = c.layers[2].to_config();
    let format = c.layers[3].to_config();
    let mut doc = String::new();
    if !defaults.is_empty() {
        let yaml = match serde_yaml::to_string(&defaults) {
            Ok(y) => y,
            Err(e) => return V::fail(format!("cannot serialise defaults: {e}")),
        };
        doc.push_str("---\ndefaults:\n");
        for l in yaml.lines() {
            doc.push_str(&format!("  {l}\n"));
        }
        doc.push_str("---\n\n");
    }
    // JSON is YAML flow syntax
    let inline_text = if inline.is_empty() {
        String::new()
    } else {
        format!(" {}", serde_json::to_string(&inline).unwrap_or_default())
    };
    doc.push_str(&format!("# t\n\n```scrut{inline_text}\n$ true\n```\n"));
    let parsed = guard(|| {
        scrut::parsers::markdown::MarkdownParser::new(
            std::sync::Arc::new(scrut::expectation::ExpectationMaker::new(
                scrut::rules::registry::RuleRegistry::default(),
            )),
            &["scrut"],
            Some(format.clone()),
        )
        .parse(&doc)
    });
    let (doc_cfg, tests) = match parsed {
        Err(p) => return V::fail(format!("parser crashed: {p}\n{doc}")),
        Ok(Err(e)) => return V::fail(format!("document does not parse: {e:#}\n{doc}")),
        Ok(Ok(x)) => x,
    };
    if tests.len() != 1 {
        return V::fail(format!("{} tests parsed\n{doc}", tests.len()));
    }
    // test command and executor steps
    let effective = tests[0]
        .config
        .with_overrides_from(&cli)
        .with_defaults_from(&doc_cfg.defaults);
    let expect = model(&[&c.layers[0], &c.layers[1], &c.layers[2], &c.layers[3]]).to_config();
    let base = check_layers(c); // labels / non-triviality
    if effective != expect {
        return V::fail(format!(
            "configuration of the parsed test case differs from 'first layer that sets it' (got vs expected): {}\ndocument:\n{doc}",
            diff_keys(&effective, &expect)
        ));
    }
    V { fail: None, ..base }
}

#[derive(Clone, Debug, Serialize, Deserialize)]
pub struct DocLayerCase {
    pub layers: Vec<DocCfg>,
}

fn small_doc() -> BoxedStrategy<DocCfg> {
    (
        vec(proptest::sample::select(vec!["a1", "a2", "a3", "a4"]).prop_map(String::from), 0..3),
        vec(proptest::sample::select(vec!["p1", "p2", "p3", "p4"]).prop_map(String::from), 0..3),
        small_tc(),
        proptest::option::of(proptest::sample::select(vec!["sh1", "sh2"]).prop_map(String::from)),
        proptest::option::of(prop_oneof![Just(0u64), Just(1000u64), Just(900_000u64)]),
    )
        .prop_map(|(append, prepend, defaults, shell, total_timeout_ms)| DocCfg {
            append,
            prepend,
            defaults,
            shell,
            total_timeout_ms,
        })
        .boxed()
}

fn is_interleaving_free_concat(result: &[std::path::PathBuf], layers: &[&Vec<String>]) -> bool {
    // the result must be a concatenation of the layers' lists in some order of the layers
    fn rec(result: &[std::path::PathBuf], remaining: &mut Vec<&Vec<String>>) -> bool {
        if remaining.is_empty() {
            return result.is_empty();
        }
        for i in 0..remaining.len() {
            let l = remaining[i];
            if result.len() >= l.len()
                && result[..l.len()]
                    .iter()
                    .zip(l.iter())
                    .all(|(a, b)| a.to_string_lossy() == *b)
            {
                let removed = remaining.remove(i);
                let ok = rec(&result[l.len()..], remaining);
                remaining.insert(i, removed);
                if ok {
                    return true;
                }
            }
        }
        false
    }
    rec(result, &mut layers.to_vec())
}

fn check_doc_layers(c: &DocLayerCase) -> V {
    let r = guard(|| {
        let l: Vec<DocumentConfig> = c.layers.iter().map(|x| x.to_config()).collect();
        let (a, b, d) = (&l[0], &l[1], &l[2]);
        let left = a.with_defaults_from(b).with_defaults_from(d);
        let right = a.with_defaults_from(&b.with_defaults_from(d));
        if left != right {
            return Err(format!(
                "DocumentConfig::with_defaults_from is not associative: {left:?} vs {right:?}"
            ));
        }
        let empty = DocumentConfig::empty();
        if a.with_defaults_from(&empty) != *a || empty.with_defaults_from(a) != *a {
            return Err("an empty document layer changes the configuration".to_string());
        }
        if b.with_overrides_from(a) != a.with_defaults_from(b) {
            return Err("DocumentConfig::with_overrides_from(a, b) != b.with_defaults_from(a)".into());
        }
        // scalar precedence
        let shell = c.layers.iter().find_map(|x| x.shell.clone());
        if left.shell.as_ref().map(|p| p.to_string_lossy().to_string()) != shell {
            return Err(format!("shell: {:?}, first layer that sets it says {:?}", left.shell, shell));
        }
        let tt = c.layers.iter().find_map(|x| x.total_timeout_ms);
        if left.total_timeout.map(|d| d.as_millis() as u64) != tt {
            return Err(format!("total_timeout: {:?}, first layer that sets it says {:?}", left.total_timeout, tt));
        }
        let defaults_model = model(&[&c.layers[0].defaults, &c.layers[1].defaults, &c.layers[2].defaults]).to_config();
        if left.defaults != defaults_model {
            return Err(format!("defaults: {}", diff_keys(&left.defaults, &defaults_model)));
        }
        // accumulation: concatenation of the layers' lists, nothing lost or duplicated
        let appends: Vec<&Vec<String>> = c.layers.iter().map(|x| &x.append).collect();
        if !is_interleaving_free_concat(&left.append, &appends) {
            return Err(format!("append {:?} is not a concatenation of the layers' lists {:?}", left.append, appends));
        }
        let prepends: Vec<&Vec<String>> = c.layers.iter().map(|x| &x.prepend).collect();
        if !is_interleaving_free_concat(&left.prepend, &prepends) {
            return Err(format!("prepend {:?} is not a concatenation of the layers' lists {:?}", left.prepend, prepends));
        }
        Ok(())
    });
    let lists = c.layers.iter().filter(|l| !l.append.is_empty() || !l.prepend.is_empty()).count();
    let v = V::pass().nt(lists >= 2).label_if(lists >= 2, "lists_in_two_layers");
    match r {
        Ok(Ok(())) => v,
        Ok(Err(m)) => V::fail(m),
        Err(p) => V::fail(format!("crash: {p}")),
    }
}

/// complete enumeration of {unset, A, B}^4 for every scalar key, and of the presence/value
/// pattern of one environment variable over four layers
pub struct ExhaustiveScalars;

impl Part for ExhaustiveScalars {
    fn name(&self) -> &'static str {
        "exhaustive_scalars"
    }
    fn run(&self, ctx: &Ctx) -> PartReport {
        let mut rep = PartReport {
            name: self.name().into(),
            rule: "complete enumeration: every key (7 scalar keys + one environment variable) x {unset, A, B} in each of the 4 layers (3^4 assignments per key); non-trivial: >=2 layers set the key differently".into(),
            ..Default::default()
        };
        let mut nt = 0u64;
        for key in 0..8usize {
            for combo in 0..81usize {
                let mut layers = vec![TcCfg::default(); 4];
                let mut vals = vec![];
                for (li, layer) in layers.iter_mut().enumerate() {
                    let v = (combo / 3usize.pow(li as u32)) % 3;
                    vals.push(v);
                    if v == 0 {
                        continue;
                    }
                    let b = v == 2;
                    match key {
                        0 => layer.detached = Some(b),
                        1 => layer.keep_crlf = Some(b),
                        2 => layer.output_stream = Some(if b { 2 } else { 3 }),
                        3 => layer.skip_document_code = Some(if b { 7 } else { 80 }),
                        4 => layer.strip_ansi_escaping = Some(b),
                        5 => layer.timeout_ms = Some(if b { 2500 } else { 1000 }),
                        6 => layer.wait = Some((if b { 2000 } else { 1000 }, None)),
                        _ => {
                            layer.environment.insert("V1".into(), if b { "B".into() } else { "A".into() });
                        }
                    }
                }
                let case = LayerCase { layers, extra: TcCfg::default() };
                let v = check_layers(&case);
                rep.evaluations += 1;
                let set: Vec<usize> = vals.iter().copied().filter(|v| *v != 0).collect();
                if set.len() >= 2 && set.iter().any(|v| *v != set[0]) {
                    nt += 1;
                }
                if let Some(m) = v.fail {
                    if rep.violations.is_empty() {
                        let replay = write_replay(&ctx.property, "layers", &case, &m);
                        rep.violations.push(Violation { part: self.name().into(), message: m, replay });
                    }
                }
            }
        }
        rep.nontrivial = (0..nt).collect();
        rep.exhaustive = rep.violations.is_empty();
        rep.samples.push(json!({"part": self.name(), "case": "key=keep_crlf layers=[unset, A, B, A] -> expected A (inline)"}));
        rep
    }
    fn replay(&self, case: &serde_json::Value) -> Result<V, String> {
        let case: LayerCase = serde_json::from_value(case.clone()).map_err(|e| e.to_string())?;
        Ok(check_layers(&case))
    }
}

// ---------------------------------------------------------------------------
// (b) end to end: documents that print the observable effect of each key

#[derive(Clone, Debug, Serialize, Deserialize)]
pub struct E2eCase {
    pub cram: bool,
    /// command line: 0 none, 1 --combine-output, 2 --no-combine-output
    pub cli_stream: u8,
    /// 0 none, 1 --keep-output-crlf, 2 --no-keep-output-crlf
    pub cli_crlf: u8,
    /// front-matter defaults / inline: output_stream 0 unset 1 stdout 2 stderr 3 combined
    pub def_stream: u8,
    pub inl_stream: u8,
    /// keep_crlf: 0 unset 1 false 2 true
    pub def_crlf: u8,
    pub inl_crlf: u8,
    /// environment variable VAR: 0 unset, 1 value "D", 2 value "I"
    pub def_env: bool,
    pub inl_env: bool,
    /// where the observing test case comes from: 0 the document given on the command line,
    /// 1 / 2 a document prepended / appended with -P / -A, 3 / 4 one named by `prepend:` /
    /// `append:` in the front-matter of the given document (the given one then only runs `true`)
    #[serde(default)]
    pub via: u8,
    /// a second test case follows in the same document (Markdown, via 0); Some(true): it sets
    /// VAR=J inline, Some(false): it has no inline configuration. Each test case must see the
    /// value of *its own* highest layer although the shell state of the first one is carried over
    #[serde(default)]
    pub follower: Option<bool>,
}

fn e2e_strategy() -> BoxedStrategy<E2eCase> {
    (
        proptest::bool::weighted(0.25),
        0u8..3,
        0u8..3,
        0u8..4,
        0u8..4,
        0u8..3,
        0u8..3,
        any::<bool>(),
        any::<bool>(),
        prop_oneof![4 => Just(0u8), 1 => Just(1u8), 1 => Just(2u8), 1 => Just(3u8), 1 => Just(4u8)],
    )
        .prop_map(|(cram, cli_stream, cli_crlf, def_stream, inl_stream, def_crlf, inl_crlf, def_env, inl_env, via)| (cram && via == 0, cli_stream, cli_crlf, def_stream, inl_stream, def_crlf, inl_crlf, def_env, inl_env, via))
        .prop_map(|(cram, cli_stream, cli_crlf, def_stream, inl_stream, def_crlf, inl_crlf, def_env, inl_env, via)| E2eCase {
            via,
            // derived from the other choices (no further tuple slot): a follower in half of the
            // plain Markdown cases, with its own inline value where the first one has none or
            // the document sets a default
            follower: if !cram && via == 0 && (cli_stream + def_stream + inl_crlf) % 2 == 0 {
                if def_env { Some((cli_crlf + inl_stream) % 2 == 0) } else { Some(true) }
            } else {
                None
            },
            cram,
            cli_stream,
            cli_crlf,
            def_stream: if cram { 0 } else { def_stream },
            inl_stream: if cram { 0 } else { inl_stream },
            def_crlf: if cram { 0 } else { def_crlf },
            inl_crlf: if cram { 0 } else { inl_crlf },
            def_env: if cram { false } else { def_env },
            inl_env: if cram { false } else { inl_env },
        })
        .boxed()
}

fn check_e2e(c: &E2eCase) -> V {
    let dir = match CaseDir::new("C16") {
        Ok(d) => d,
        Err(e) => inconclusive(&format!("scratch dir: {e}")),
    };
    // model: first layer that sets it
    let stream = if c.cli_stream == 1 {
        3
    } else if c.cli_stream == 2 {
        1
    } else if c.inl_stream != 0 {
        c.inl_stream
    } else if c.def_stream != 0 {
        c.def_stream
    } else if c.cram {
        3
    } else {
        1
    };
    let keep = if c.cli_crlf == 1 {
        true
    } else if c.cli_crlf == 2 {
        false
    } else if c.inl_crlf != 0 {
        c.inl_crlf == 2
    } else if c.def_crlf != 0 {
        c.def_crlf == 2
    } else {
        c.cram
    };
    let var = if c.inl_env {
        "I"
    } else if c.def_env {
        "D"
    } else {
        "unset"
    };
    // the command prints, sequentially: one line on stdout, one on stderr (both CRLF terminated)
    let command = "printf 'out-%s\\r\\n' \"${VAR:-unset}\"; printf 'err\\r\\n' >&2";
    let eol = if keep { "\\r (escaped)" } else { "" };
    let mut lines = vec![];
    let out_line = format!("out-{var}{eol}");
    let err_line = format!("err{eol}");
    match stream {
        1 => lines.push(out_line),
        2 => lines.push(err_line),
        _ => {
            lines.push(out_line);
            lines.push(err_line);
        }
    }
    // the follower has no inline stream / CR LF setting: command line > document default > format
    let follower_lines = c.follower.map(|inline_j| {
        let stream2 = if c.cli_stream == 1 { 3 } else if c.cli_stream == 2 { 1 } else if c.def_stream != 0 { c.def_stream } else { 1 };
        let keep2 = if c.cli_crlf == 1 { true } else if c.cli_crlf == 2 { false } else { c.def_crlf == 2 };
        let var2 = if inline_j { "J" } else { "D" }; // generated only with a document default when not inline
        let eol2 = if keep2 { "\\r (escaped)" } else { "" };
        let mut l = vec![];
        if stream2 != 2 {
            l.push(format!("out-{var2}{eol2}"));
        }
        if stream2 != 1 {
            l.push(format!("err{eol2}"));
        }
        l
    });
    let mut args: Vec<String> = vec!["test".into(), "-r".into(), "json".into(), "--no-color".into()];
    match c.cli_stream {
        1 => args.push("--combine-output".into()),
        2 => args.push("--no-combine-output".into()),
        _ => {}
    }
    match c.cli_crlf {
        1 => args.push("--keep-output-crlf".into()),
        2 => args.push("--no-keep-output-crlf".into()),
        _ => {}
    }
    let stream_name = |s: u8| ["", "stdout", "stderr", "combined"][s as usize];
    let doc = if c.cram {
        let mut d = String::from("A cram test\n");
        d.push_str(&format!("  $ {command}\n"));
        for l in &lines {
            d.push_str(&format!("  {l}\n"));
        }
        d
    } else {
        let mut d = String::new();
        let mut defaults = vec![];
        if c.def_stream != 0 {
            defaults.push(format!("  output_stream: {}", stream_name(c.def_stream)));
        }
        if c.def_crlf != 0 {
            defaults.push(format!("  keep_crlf: {}", c.def_crlf == 2));
        }
        if c.def_env {
            defaults.push("  environment:\n    VAR: D".to_string());
        }
        if !defaults.is_empty() {
            d.push_str("---\ndefaults:\n");
            d.push_str(&defaults.join("\n"));
            d.push_str("\n---\n\n");
        }
        let mut inline = vec![];
        if c.inl_stream != 0 {
            inline.push(format!("output_stream: {}", stream_name(c.inl_stream)));
        }
        if c.inl_crlf != 0 {
            inline.push(format!("keep_crlf: {}", c.inl_crlf == 2));
        }
        if c.inl_env {
            inline.push("environment: {VAR: I}".to_string());
        }
        let cfg = if inline.is_empty() { String::new() } else { format!(" {{{}}}", inline.join(", ")) };
        d.push_str(&format!("# precedence\n\n```scrut{cfg}\n$ {command}\n"));
        for l in &lines {
            d.push_str(l);
            d.push('\n');
        }
        d.push_str("```\n");
        if let (Some(inline_j), Some(lines2)) = (c.follower, &follower_lines) {
            let cfg2 = if inline_j { " {environment: {VAR: J}}" } else { "" };
            d.push_str(&format!("\n# the next test case\n\n```scrut{cfg2}\n$ {command}\n"));
            for l in lines2 {
                d.push_str(l);
                d.push('\n');
            }
            d.push_str("```\n");
        }
        d
    };
    let path = dir.path().join(if c.cram { "doc.t" } else { "doc.md" });
    std::fs::write(&path, &doc).ok();
    let mut doc = doc;
    if c.via == 0 {
        args.push(path.to_string_lossy().to_string());
    } else {
        // the observing document is pulled in by a trivial main document
        let main = dir.path().join("main.md");
        let fm = match c.via {
            3 => "---\nprepend:\n  - doc.md\n---\n\n",
            4 => "---\nappend:\n  - doc.md\n---\n\n",
            _ => "",
        };
        let main_text = format!("{fm}# main\n\n```scrut\n$ true\n```\n");
        std::fs::write(&main, &main_text).ok();
        // (-P / -A take several values: the document path goes first)
        args.push(main.to_string_lossy().to_string());
        match c.via {
            1 => {
                args.push("-P".into());
                args.push(path.to_string_lossy().to_string());
            }
            2 => {
                args.push("-A".into());
                args.push(path.to_string_lossy().to_string());
            }
            _ => {}
        }
        doc = format!("{doc}\n--- main.md (the document given on the command line):\n{main_text}");
    }
    let argv: Vec<&str> = args.iter().map(|s| s.as_str()).collect();
    let run = match run_scrut(&dir, &argv, 60) {
        Ok(r) => r,
        Err(e) => inconclusive(&format!("scrut did not run: {e}")),
    };
    let layers_set = |a: u8, b: u8, cli: u8| (a != 0) as u8 + (b != 0) as u8 + (cli != 0) as u8;
    let conflict = layers_set(c.def_stream, c.inl_stream, c.cli_stream) >= 2
        || layers_set(c.def_crlf, c.inl_crlf, c.cli_crlf) >= 2
        || (c.def_env && c.inl_env);
    let v = V::pass()
        .nt(conflict)
        .label(if c.cram { "cram" } else { "markdown" })
        .label_if(c.def_env && c.inl_env, "environment_conflict")
        .label_if(conflict, "two_layers_set_a_key")
        .label_if(c.follower.is_some(), "second_test_case_with_another_environment_layer")
        .label_if(c.via != 0, "test_case_of_a_prepended_or_appended_document");
    let kinds = json_result_kinds(&run.stdout).unwrap_or_default();
    let want = vec!["success".to_string(); if c.via != 0 || c.follower.is_some() { 2 } else { 1 }];
    if run.code == Some(0) && kinds == want {
        v
    } else {
        V::fail(format!(
            "expectations written from the precedence model (stream={}, keep_crlf={keep}, VAR={var}) are not met: exit {:?}, kinds {:?}\nargs: {:?}\ndocument:\n{doc}\nstdout: {}\nstderr: {}",
            stream_name(stream),
            run.code,
            kinds,
            &args,
            truncate(&run.stdout, 1500),
            truncate(&run.stderr, 400)
        ))
    }
}

// ---------------------------------------------------------------------------
// (c) end to end: the layers of skip_document_code (no command-line flag exists for it)

#[derive(Clone, Debug, Serialize, Deserialize)]
pub struct SkipCase {
    /// front-matter `defaults.skip_document_code`
    pub def: Option<u8>,
    /// inline `{skip_document_code: ..}` of the test case
    pub inl: Option<u8>,
    /// the command exits with: 0 = the inline code (or 80), 1 = the document code (or 80), 2 = 80, 3 = 3
    pub exit_sel: u8,
}

fn skip_strategy() -> BoxedStrategy<SkipCase> {
    (
        proptest::option::of(prop_oneof![Just(42u8), Just(43u8), Just(80u8)]),
        proptest::option::of(prop_oneof![Just(42u8), Just(43u8), Just(80u8)]),
        0u8..4,
    )
        .prop_map(|(def, inl, exit_sel)| SkipCase { def, inl, exit_sel })
        .boxed()
}

fn check_skip(c: &SkipCase) -> V {
    let dir = match CaseDir::new("C16") {
        Ok(d) => d,
        Err(e) => inconclusive(&format!("scratch dir: {e}")),
    };
    let exit = match c.exit_sel {
        0 => c.inl.unwrap_or(80),
        1 => c.def.unwrap_or(80),
        2 => 80,
        _ => 3,
    };
    // first layer that sets it: inline, document defaults, format default
    let in_force = c.inl.or(c.def).unwrap_or(80);
    let mut doc = String::new();
    if let Some(d) = c.def {
        doc.push_str(&format!("---\ndefaults:\n  skip_document_code: {d}\n---\n\n"));
    }
    let cfg = c.inl.map(|i| format!(" {{skip_document_code: {i}}}")).unwrap_or_default();
    doc.push_str(&format!("# skip code layers\n\n```scrut{cfg}\n$ (exit {exit})\n[{exit}]\n```\n"));
    let path = dir.path().join("doc.md");
    std::fs::write(&path, &doc).ok();
    let run = match run_scrut(&dir, &["test", "-r", "json", "--no-color", path.to_str().unwrap()], 60) {
        Ok(r) => r,
        Err(e) => inconclusive(&format!("scrut did not run: {e}")),
    };
    let want = if exit == in_force { "skipped" } else { "success" };
    let v = V::pass()
        .nt(c.def.is_some() && c.inl.is_some() && c.def != c.inl)
        .label_if(c.def.is_some() && c.inl.is_some() && c.def != c.inl, "document_and_inline_skip_code_differ")
        .label(if want == "skipped" { "exits_with_the_code_in_force" } else { "exits_with_another_code" });
    let kinds = json_result_kinds(&run.stdout).unwrap_or_default();
    if run.code == Some(0) && kinds == vec![want.to_string()] {
        v
    } else {
        V::fail(format!(
            "skip code in force is {in_force} (inline {:?}, document {:?}), the command exits with {exit}: expected the test case to be reported as {want}, got {:?} (exit {:?})\ndocument:\n{doc}",
            c.inl, c.def, kinds, run.code
        ))
    }
}

pub fn property() -> Property {
    Property {
        id: "C16",
        assumptions: vec![
            "library layers are composed exactly as parsers/markdown.rs, bin/commands/test.rs and executors/stateful_executor.rs compose them",
            "accumulation of prepend/append is asserted as: the result is a concatenation of the layers' lists (each list kept intact, none lost or duplicated) and layering is associative; which layer's list comes first is not asserted",
            "end to end: expectations are written from the precedence model, so the run passes iff precedence is right",
        ],
        parts: vec![
            Box::new(PropPart::<LayerCase> {
                name: "layers",
                rule: "four TestCaseConfig layers, every key in {unset, A, B}, environment maps over three names; oracle 'first layer that sets it' per key and per variable + associativity / neutral element / overrides-defaults duality. Non-trivial: >=2 layers set the same key or variable differently",
                quick: 200_000,
                thorough: 5_000_000,
                max_workers: 0,
                strategy: Box::new(|_| layer_strategy()),
                check: Box::new(check_layers),
            }),
            Box::new(PropPart::<LayerCase> {
                name: "parsed_layers",
                rule: "the same four layers, inline layer and document defaults written into a Markdown document (front-matter `defaults`, JSON one-liner on the fence line) and composed by the real MarkdownParser with the format layer as base configuration, then the test command's and the executor's steps. Non-trivial as in `layers`",
                quick: 60_000,
                thorough: 2_000_000,
                max_workers: 0,
                strategy: Box::new(|_| layer_strategy()),
                check: Box::new(check_parsed_layers),
            }),
            Box::new(PropPart::<DocLayerCase> {
                name: "doc_layers",
                rule: "three DocumentConfig layers (append/prepend lists, defaults, shell, total_timeout); associativity, neutral element, scalar precedence, lists accumulate as concatenation. Non-trivial: >=2 layers carry lists",
                quick: 100_000,
                thorough: 2_000_000,
                max_workers: 0,
                strategy: Box::new(|_| vec(small_doc(), 3).prop_map(|layers| DocLayerCase { layers }).boxed()),
                check: Box::new(check_doc_layers),
            }),
            Box::new(ExhaustiveScalars),
            Box::new(PropPart::<E2eCase> {
                name: "e2e",
                rule: "documents whose command prints the observable effect of output_stream, keep_crlf and an environment variable, run by `scrut test` with generated CLI flags, front-matter defaults and inline config (Markdown) or CLI flags only (Cram). Non-trivial: >=2 layers set the same key",
                quick: 1_200,
                thorough: 12_000,
                max_workers: 12,
                strategy: Box::new(|_| e2e_strategy()),
                check: Box::new(check_e2e),
            }),
            Box::new(PropPart::<SkipCase> {
                name: "skip_code_layers",
                rule: "Markdown document with skip_document_code in {unset, 42, 43, 80} in the front-matter defaults and inline, a command that exits with the inline / document / default code or 3 and expects that code: skipped iff it exits with the code of the highest layer that sets it. Non-trivial: both layers set different codes",
                quick: 300,
                thorough: 3_000,
                max_workers: 12,
                strategy: Box::new(|_| skip_strategy()),
                check: Box::new(check_skip),
            }),
        ],
    }
}
