#![no_main]
use libfuzzer_sys::fuzz_target;

fuzz_target!(|data: &[u8]| {
    if let Some(message) = scrut_verif::fuzz::update(data) {
        panic!("ORACLE FAILURE: {message}");
    }
});
