#!/bin/bash
# runs every claimed check at the given tier, prints one summary line per property
cd "$(dirname "$0")/.."
TIER=${1:-quick}
fail=0
for id in $(python3 -c "import json;print(' '.join(c['property_id'] for c in json.load(open('MANIFEST.json'))['checks']))"); do
    out=$(./check $id $TIER 2>&1); code=$?
    echo "$id exit=$code $(echo "$out" | grep -a "tier:" | tail -1 | sed 's/.*tier: //')"
    echo "$out" | grep -a "^VIOLATION" 
    [ $code -ne 0 ] && fail=1
done
exit $fail
