#!/usr/bin/env python3
"""Rewrites sections 5, 7, 8 (and the section 9 stub) of DESIGN.md; the tables of section 7 are
generated from known_findings.json so that they never drift from what the checks use."""
import json, os, re
ROOT = os.path.dirname(os.path.dirname(os.path.abspath(__file__)))
p = os.path.join(ROOT, 'DESIGN.md')
s = open(p).read()

def esc(t):
    return t.replace('|', '\\|').replace('\n', ' ')

i5 = s.index('## 5. Genuine defects, fixes, known findings')
i6 = s.index('## 6. What this family does not reach here')
sec5 = open(os.path.join(ROOT, 'tools/design_sec5.md')).read()
s = s[:i5] + sec5 + s[i6:]
i7 = s.index('## 7. ')
d = json.load(open(os.path.join(ROOT, 'known_findings.json')))
fixed = [f for f in d['findings'] if f.get('status') == 'fixed']
openf = [f for f in d['findings'] if f.get('status') != 'fixed']
rows_fixed = '\n'.join("| %s | %s | %s |" % (f['property'], f.get('commit', ''), esc(f['what'])) for f in fixed)
rows_open = '\n'.join("| %s | `%s` | %s |" % (f['property'], f['key'], esc(f['what'])) for f in openf)
sec7 = open(os.path.join(ROOT, 'tools/design_sec7.md')).read().replace('@ROWS_FIXED@', rows_fixed).replace('@ROWS_OPEN@', rows_open)
i9 = s.find('## 9. Seeded changes')
tail = s[i9:] if i9 >= 0 else '## 9. Seeded changes (testing the checks)\n\n(to be filled in)\n'
s = s[:i7] + sec7 + tail
open(p, 'w').write(s)
print("DESIGN.md sections 5, 7, 8 rewritten;", len(fixed), "fixed,", len(openf), "open")
