#!/usr/bin/env python3
"""Writes /verif/MANIFEST.json from the table below and validates it against the schema."""
import json, sys, os

ROOT = os.path.dirname(os.path.dirname(os.path.abspath(__file__)))

# id -> (technique, level text, level note, design ref)
CLAIMED = {
    "C01": ("property-based testing: proptest match matrices + real rules vs. reference acceptor (DP), bounded-exhaustive enumeration",
            "Generated search: millions of random match matrices x quantifier vectors (injected through the public Rule trait), real-rule cases, and a complete enumeration of all matrices up to 4x4, each decided by an independent dynamic-programming acceptor of the language e1{q1}..en{qn}. Finds any false pass inside the explored bounds; proves nothing beyond them.",
            "Trusted: the 30-line reference acceptor R-lang, the harness line splitter. Sizes up to 8 expectations x 12 lines (random), 4x4 (exhaustive).",
            "DESIGN.md §4 C01"),
    "C02": ("property-based testing: structural invariant over Diff.lines on generated matrices / real rules, bounded-exhaustive enumeration",
            "Generated search with a conservation invariant (every output line once, in order, really matched; every non-optional expectation once; indices ascending; bytes unaltered; no panic) over random and exhaustively enumerated inputs.",
            "Trusted: the invariant checker; line splitter of the harness.",
            "DESIGN.md §4 C02"),
    "C03": ("property-based testing: proptest generated deterministic expectation/output pairs vs. reference acceptor, bounded-exhaustive enumeration",
            "Generated search restricted to pairs that satisfy the one-line-look-ahead determinism predicate R-det (constructive generator + filter-by-classification of the general generator, skipped cases are counted), verdict compared with the reference acceptor in both directions.",
            "Trusted: R-det as the reading of 'deterministic' in the property text, R-lang.",
            "DESIGN.md §4 C03"),
}

CLAIMED["C04"] = ("property-based testing: per-kind generators with independent reference matchers (glob DP, backtracking regex interpreter over a generated AST, construct-then-encode for escaped)",
    "Generated search per expectation kind: expression and near-miss candidate lines are generated together, the verdict of the real rule (directly and through ExpectationMaker::parse) is compared with a reference written from the documentation.",
    "Trusted: the reference matchers; regex AST covers literals, ., \\d, classes, * + ? {n} {n,m}, groups, alternation at every level; glob verdicts on invalid UTF-8 lines are not asserted.",
    "DESIGN.md §4 C04")

CLAIMED["C08"] = ("property-based testing: generated expectation lines vs. a reference parser of the documented BNF, and a print-back round trip compared on probe contents",
    "Generated search over line text built from a pool of grammar-colliding pieces, every kind alias x quantifier x separator, plus well-formed regex/escaped expressions; parse result compared with an independent reference parser (R-expect); canonical rendering re-parsed and compared with the original on a probe set of line contents under both escapers.",
    "Trusted: R-expect as the reading of the BNF. LF inside a line is outside the domain. Classification of modifier groups separated by TAB/NBSP/U+3000 is not asserted. Five print-back defects are recorded as known findings with narrow signatures.",
    "DESIGN.md §4 C08")

NOT_YET = {
}

def main():
    props = [json.loads(l) for l in open(os.path.join(ROOT, "properties.jsonl"))]
    checks = []
    na = []
    for p in props:
        pid = p["id"]
        if pid in CLAIMED:
            tech, text, note, ref = CLAIMED[pid]
            checks.append({
                "property_id": pid,
                "quick_cmd": f"./check {pid} quick",
                "thorough_cmd": f"./check {pid} thorough",
                "evidence_file": f"/verif/evidence/{pid}.json",
                "replay_cmd_template": f"./check {pid} --replay {{path}}",
                "engine": "scrut-verif",
                "level_claimed": {"category": "exploration", "text": text, "design_ref": ref},
                "level_note": note,
                "technique": tech,
            })
        else:
            na.append({"property_id": pid,
                       "reason": NOT_YET.get(pid, "check not built yet in this round (planned in DESIGN.md §4; property-based testing applies)")})
    manifest = {
        "version": 1,
        "setup_cmd": "./setup.sh",
        "hooks": {
            "guard": "scrut_verif",
            "enable": "no hooks are needed: every observation point is public API or the CLI; the cfg name scrut_verif is reserved (RUSTFLAGS='--cfg scrut_verif') but no source commit uses it",
            "baseline_off_cmd": "cd /repo && cargo test --workspace --no-fail-fast --offline",
            "source_commits": [],
            "add_only": True,
        },
        "engines": [{
            "name": "scrut-verif",
            "path": "/verif/harness",
            "serves_properties": sorted(CLAIMED.keys()),
            "kind_free_text": "Rust binary `verif` built on proptest 1.11 (TestRunner per worker thread, seeded from VERIF_SEED), links the scrut library from /repo by path and drives the scrut binary built from /repo; shrinks failures to JSON replay files",
        }],
        "checks": checks,
        "notes": "All checks: ./check <ID> <quick|thorough>; exit 2 means inconclusive (build failure / watchdog), never a violation. known_findings.json is read-only at run time.",
        "not_applicable": na,
    }
    out = os.path.join(ROOT, "MANIFEST.json")
    json.dump(manifest, open(out, "w"), indent=1)
    try:
        import jsonschema
        schema = json.load(open("/root/.vp/MANIFEST.schema.json"))
        jsonschema.validate(manifest, schema)
        print("MANIFEST.json valid;", len(checks), "checks,", len(na), "not_applicable")
    except ImportError:
        print("jsonschema not available; wrote MANIFEST.json unvalidated")

main()
