#!/bin/bash
# tools/confirm_seed.sh <ID> [base-commit]: confirm a seeded change in a scratch worktree:
# demo passes on the clean tree, patch applies, existing suite passes with it, demo fails with it.
ID=$1; BASE=${2:-c57cf9b}
SRC=${SEED_SRC:-/tmp/seed/$ID.out}
WT=/tmp/confirm/$ID
LOG=/tmp/confirm/$ID.log
mkdir -p /tmp/confirm
rm -rf $WT; git -C /repo worktree prune
git -C /repo worktree add -q --detach $WT $BASE > $LOG 2>&1 || { echo "$ID worktree failed"; exit 2; }
export CARGO_NET_OFFLINE=true CARGO_TARGET_DIR=$WT/target
( cd $WT && bash $SRC/demo/run.sh $WT ) >> $LOG 2>&1; clean=$?
( cd $WT && git clean -fdq -- tests ) >> $LOG 2>&1   # demos may leave their test file behind
( cd $WT && git apply $SRC/patch.diff ) >> $LOG 2>&1; applied=$?
( cd $WT && cargo test --workspace --no-fail-fast --offline ) > $LOG.suite 2>&1; suite=$?
passed=$(grep -c "^test result: ok" $LOG.suite)
( cd $WT && bash $SRC/demo/run.sh $WT ) >> $LOG 2>&1; seeded=$?
( cd $WT && git status --short | grep -v '^ M' | head -3 ) >> $LOG 2>&1
git -C /repo worktree remove --force $WT
echo "$ID base=$BASE demo_clean=$clean patch_applied=$applied suite_exit=$suite suite_ok_groups=$passed demo_seeded=$seeded"
