#!/usr/bin/env python3
"""Prints the Markdown table of one round of seeded changes from seeded/*/meta.json.
usage: seed_table.py <suffix: '' | b | c>"""
import json, glob, os, sys
suffix = sys.argv[1] if len(sys.argv) > 1 else ''
root = os.path.dirname(os.path.dirname(os.path.abspath(__file__)))
print("| Seed | Mechanism | Needs | Caught by (quick tier) |")
print("|------|-----------|-------|------------------------|")
for d in sorted(glob.glob(os.path.join(root, 'seeded', 'C??' + suffix))):
    m = json.load(open(os.path.join(d, 'meta.json')))
    c = ', '.join(m['caught_by_quick_checks'])
    if m.get('caught_only_after_strengthening'):
        c += ' (after strengthening)'
    print("| %s | %s | %s | %s |" % (os.path.basename(d), m['mechanism'].replace('|', '\\|'), m['needs_to_manifest'].replace('|', '\\|'), c))
