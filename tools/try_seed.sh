#!/bin/bash
# tools/try_seed.sh <patch.diff> <check ids...> : apply a seeded change to /repo, run the given
# checks (quick tier, or $TIER), undo the change. Prints one line per check.
set -u
cd "$(dirname "$0")/.."
PATCH=$(realpath "$1"); shift
TIER=${TIER:-quick}
if [ -n "$(git -C /repo status --porcelain --untracked-files=no)" ]; then echo "/repo is not clean" >&2; exit 2; fi
git -C /repo apply "$PATCH" || { echo "patch does not apply" >&2; exit 2; }
trap 'git -C /repo checkout -- . ; git -C /repo clean -fdq -- tests 2>/dev/null' EXIT
for id in "$@"; do
    out=$(./check $id $TIER 2>&1); code=$?
    echo "== $id exit=$code $(echo "$out" | grep -a 'tier:' | tail -1 | sed 's/.*tier: //')"
    echo "$out" | grep -a -A3 "^VIOLATION" | cut -c1-400 | head -12
done
