#!/bin/bash
# tools/seed_matrix.sh [seed dirs...] : for every stored seeded change that applies to /repo's HEAD
# (patch.diff, or a patch-rebased-*.diff next to it), run the quick check of its own property and
# the other checks meta.json names against it and record the exit codes in seeded/matrix.txt
# (1 = reported). Evidence files are overwritten by these runs; run tools/run_all.sh quick afterwards.
set -u
cd "$(dirname "$0")/.."
out=${OUT:-seeded/matrix.txt}
: > $out   # (a partial run overwrites the file: copy it first if you want to keep the full matrix)
for d in ${@:-seeded/C*}; do d=$(realpath $d)
    id=$(basename $d)
    [ -f $d/patch.diff ] || continue
    patch=""
    for p in $d/patch.diff $d/patch-rebased-*.diff; do
        [ -f "$p" ] && git -C /repo apply --check $p 2>/dev/null && { patch=$p; break; }
    done
    if [ -z "$patch" ]; then echo "$id patch-does-not-apply-to-HEAD" >> $out; continue; fi
    checks=$(python3 -c "import json,sys; m=json.load(open('$d/meta.json')); l=[m['property']]+[c for c in (m.get('caught_by_quick_checks') or []) if c!=m['property']]; print(' '.join(l))")
    res=$(tools/try_seed.sh $patch $checks 2>&1 | grep -a '^== ' | sed 's/^== \(C[0-9]*\) exit=\([0-9]*\).*/\1=\2/' | tr '\n' ' ')
    echo "$id $res$( [ $patch != $d/patch.diff ] && echo "(rebased patch)")" >> $out
done
echo "HEAD $(git -C /repo rev-parse --short HEAD)" >> $out
