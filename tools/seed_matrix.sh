#!/bin/bash
# tools/seed_matrix.sh [seed dirs...] : for every stored seeded change that applies to /repo's HEAD,
# run the quick check of its own property (and the other checks meta.json names) against it and
# record exit codes in seeded/matrix.txt. Evidence files are overwritten by these runs; run
# tools/run_all.sh quick afterwards.
set -u
cd "$(dirname "$0")/.."
out=seeded/matrix.txt
: > $out
for d in ${@:-seeded/C*}; do d=$(realpath $d)
    id=$(basename $d)
    [ -f $d/patch.diff ] || continue
    if ! git -C /repo apply --check $d/patch.diff 2>/dev/null; then echo "$id patch-does-not-apply-to-HEAD" >> $out; continue; fi
    checks=$(python3 -c "import json,sys; m=json.load(open('$d/meta.json')); print(' '.join(m.get('caught_by_quick_checks') or [m['property']]))")
    res=$(tools/try_seed.sh $d/patch.diff $checks 2>&1 | grep -a '^== ' | sed 's/^== \(C[0-9]*\) exit=\([0-9]*\).*/\1=\2/' | tr '\n' ' ')
    echo "$id $res" >> $out
done
echo "HEAD $(git -C /repo rev-parse --short HEAD)" >> $out
