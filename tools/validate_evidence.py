#!/usr/bin/env python3
import json, sys, glob, jsonschema
schema = json.load(open("/root/.vp/EVIDENCE.schema.json"))
ok = True
for f in sorted(glob.glob("/verif/evidence/*.json")):
    try:
        jsonschema.validate(json.load(open(f)), schema)
        print("ok     ", f)
    except Exception as e:
        ok = False
        print("INVALID", f, str(e)[:200])
sys.exit(0 if ok else 1)
